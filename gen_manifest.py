#!/usr/bin/env python3
"""Renders MANIFEST.json from checks_table.py (+ manifest_static.json for hooks / not_applicable)."""
import json, os, sys
sys.path.insert(0, os.path.dirname(os.path.abspath(__file__)))
from checks_table import CHECKS
here = os.path.dirname(os.path.abspath(__file__))
static = json.load(open(os.path.join(here, "manifest_static.json")))
props = [json.loads(l)["id"] for l in open(os.path.join(here, "properties.jsonl"))]
m = {
    "version": 1,
    "setup_cmd": "./check --build-all",
    "hooks": static["hooks"],
    "engines": static["engines"],
    "checks": [],
    "notes": static["notes"],
    "not_applicable": [],
}
for pid in props:
    if pid in CHECKS:
        c = CHECKS[pid]
        m["checks"].append({
            "property_id": pid,
            "quick_cmd": "./check %s quick" % pid,
            "thorough_cmd": "./check %s thorough" % pid,
            "evidence_file": "/verif/evidence/%s.json" % pid,
            "replay_cmd_template": "./check %s --replay {path}" % pid,
            "engine": c.get("engine", "cdsmc"),
            "level_claimed": {"category": c.get("level", "model_checking"), "text": c["level_text"], "design_ref": c["design_ref"]},
            "level_note": c.get("level_note", "Assumes sequential consistency at the granularity of atomic operations, the bounds recorded in the evidence file, and trusts the cdsmc scheduler/explorer and the harness oracles (DESIGN.md 8, 13)."),
            "technique": c.get("technique", "model checking: stateless preemption-bounded exhaustive exploration of the real implementation under a controlled scheduler"),
        })
    else:
        m["not_applicable"].append({"property_id": pid, "reason": static["not_applicable"].get(pid, "check not built yet in this session (planned in DESIGN.md section 9); not claimed until it runs end-to-end")})
for e in m["engines"]:
    e["serves_properties"] = [c["property_id"] for c in m["checks"] if c["engine"] == e["name"]]
json.dump(m, open(os.path.join(here, "MANIFEST.json"), "w"), indent=1)
print("MANIFEST.json: %d checks, %d not_applicable" % (len(m["checks"]), len(m["not_applicable"])))
