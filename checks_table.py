# Table of checks: which harness binaries decide which property, and the words that go into evidence/MANIFEST.
# ./check reads it; gen_manifest.py renders MANIFEST.json from it.

COMMON_ASSUMPTIONS = [
    "sequentially consistent interleavings of atomic steps only (weaker memory orders are forwarded to the real std::atomic but their reorderings are not explored); compare_exchange_weak never fails spuriously",
    "plain (non-atomic) accesses between two scheduling points are executed atomically (sound for data-race-free code)",
    "bounded programs: the thread counts, operation counts, key ranges and the preemption bound reported in coverage.bounds",
    "trusted: the cdsmc scheduler/explorer, the reference models and oracles in /verif/harness, gcc 12",
]

SMR_RULE = ("every schedule of each scenario (small per-thread programs over the real reclamation API) with at most c preemptions, "
            "c iterated 0..bound; every back-off iteration is a yield choice. An outcome is the disposal log of the execution; it is "
            "non-trivial when a guard interval and a retire of the same object are both present. distinct = distinct outcomes per scenario, summed")

CHECKS = {}

CHECKS["C01"] = dict(
    title="HP never frees a protected object",
    units=[dict(name="smr", src="harness/smr.cpp", args=["--property", "C01"])],
    rule=SMR_RULE,
    explanation="stateless preemption-bounded exploration of protect/retire/scan/detach programs on the real cds::gc::HP "
                "(classic and in-place scan, minimal H/N/R, even and odd addresses); lifetime ledger: no dispose while a guard that "
                "protected the object before the pass began still holds it, no dereference of a disposed object through a validated guard",
    design_ref="DESIGN.md 9/C01, 7.3",
    level_text="Exhaustive within the stated bounds on the real implementation: every interleaving with <= c preemptions of each program is "
               "executed and checked by the ledger. Right level because the property is quantified over schedules and configurations the suite never owns.",
)

CHECKS["C02"] = dict(
    title="DHP never frees a protected object",
    units=[dict(name="smr", src="harness/smr.cpp", args=["--property", "C02"])],
    rule=SMR_RULE,
    explanation="same programs over cds::gc::DHP plus extension guard blocks published during a scan, multi-block retired lists, "
                "record reuse vs help_scan; ledger rules as C01",
    design_ref="DESIGN.md 9/C02, 7.3",
    level_text="Exhaustive within bounds on the real DHP implementation; long set-up (hundreds of guards/retires) runs unexplored in the prologue, the racing window is explored.",
)

CHECKS["C03"] = dict(
    title="HP/DHP dispose every retired object exactly once",
    units=[dict(name="smr", src="harness/smr.cpp", args=["--property", "C03"]),
           # the sequential histories again with libcds and the harness under AddressSanitizer: an overflow of a retired block is a violation C03:asan
           dict(name="smr-asan", src="harness/smr.cpp", asan=True, args=["--property", "C03", "--filter", "/seq-"])],
    rule=SMR_RULE,
    explanation="HP and DHP programs (sequential histories incl. the DHP retired-array growth menu g in {0,1,63,64,192,193,200,255,256} of 256, "
                "detach with guarded survivors followed by reuse of the thread record and of the trimmed block, "
                "and concurrent retire/scan/detach/adopt programs); per-object disposer count must be exactly 1 by singleton destruction, 0 while "
                "guarded at scan, and a pass with no guard on a retired object must free it",
    design_ref="DESIGN.md 9/C03, 7.3",
    level_text="Exhaustive within bounds on the real implementation; exactly-once is checked per object on every execution.",
)

ENUM_ASSUMPTIONS = ["64-bit input spaces are enumerated over the structured sub-spaces named per case (coverage.bounds / per-case 'space'), not all 2^64 words"]
ENUM_TECH = "model checking family: exhaustive enumeration of the finite input space of the real functions against definitional references"
ENUM_NOTE = "Trusts the bit-loop reference definitions in /verif/enum and gcc; 64-bit spaces are structured sub-spaces as listed in the evidence file."

CHECKS["C25"] = dict(
    title="bit helpers correct for every input",
    engine="enum", level="exploration", technique=ENUM_TECH, level_note=ENUM_NOTE,
    units=[dict(name="enum_c25", src="enum/enum_c25.cpp", kind="plain"),
           dict(name="enum_c25_asan", src="enum/enum_c25.cpp", kind="plain", asan=True, args=["--filter", "splitter"])],
    rule="each case enumerates its whole stated input space (all 2^32 words per 32-bit routine incl. the portable fall-backs; structured 64-bit set; "
         "every cut-width sequence per splitter); an input is non-trivial when the function does not map it to itself / the sequence has >= 2 cuts; counts are per case, summed",
    explanation="exhaustive enumeration of the real bit_reversal/bitop/int_algo/split_bitstring functions against bit-loop definitions; splitter cases re-run under AddressSanitizer "
                "with the source in an exactly-sized heap object so that a read past the end is reported",
    design_ref="DESIGN.md 6, 9/C25",
    level_text="Complete enumeration of every 32-bit input space and of the stated structured 64-bit spaces on the real functions: a coverage statement, not a sample.",
    assumptions=ENUM_ASSUMPTIONS,
    deadline=dict(quick=400, thorough=1500),
)
CHECKS["C26"] = dict(
    title="heap slot counter",
    engine="enum", level="exploration", technique=ENUM_TECH, level_note=ENUM_NOTE,
    units=[dict(name="enum_c26", src="enum/enum_c26.cpp", kind="plain")],
    rule="n = 1..2^20 (2^24 thorough) increments checked incrementally with a bitmap; every inc/dec word of length <= 26 (30) that never underflows; "
         "inc/dec round trip at every n; non-trivial = words/steps containing a dec",
    explanation="exhaustive enumeration on the real bit_reverse_counter (size_t and uint32_t). The literal 'permutation of 1..n for every n' fails by design at n=5 "
                "(known finding F6); everything that statement implies and that holds is checked as a hard requirement",
    design_ref="DESIGN.md 9/C26, 10/F6",
    level_text="Complete enumeration of the stated count ranges and of all Dyck-like words up to the stated length on the real counter.",
    assumptions=ENUM_ASSUMPTIONS,
)
CHECKS["C27"] = dict(
    title="split-order encoding",
    engine="enum", level="exploration", technique=ENUM_TECH, level_note=ENUM_NOTE,
    units=[dict(name="enum_c27", src="enum/enum_c27.cpp", kind="lib")],
    rule="for each bit-reversal algorithm and each SMR copy of the split list: table sizes 2^0..2^16 (2^20 thorough) x all 2^20 low hash bits x 12 high-bit patterns with the "
         "successor bucket found among the real dummy hashes; larger tables x the structured 64-bit set; parent buckets; non-trivial = the bucket has a successor in split order",
    explanation="exhaustive enumeration over the real split_list::regular_hash/dummy_hash and SplitListSet::bucket_no/parent_bucket (HP, RCU, nogc) with m_nBucketCountLog2 set directly",
    design_ref="DESIGN.md 9/C27",
    level_text="Complete enumeration of the stated hash/table-size spaces on the real functions.",
    assumptions=ENUM_ASSUMPTIONS,
)
CHECKS["C28"] = dict(
    title="Feldman addressing",
    engine="enum", level="exploration", technique=ENUM_TECH, level_note=ENUM_NOTE,
    units=[dict(name="enum_c28", src="enum/enum_c28.cpp", kind="lib")],
    rule="metrics::make for hash sizes 1..20 bytes x head 0..hash_bits+2 x array 0..18; path injectivity over all 1- and 2-byte hashes for every accepted configuration; "
         "one-bit-difference pairs for 4/8-byte hashes; real inserts of all 1-/2-byte hashes and prefix-sharing 4/8-byte hash sets; non-trivial = normalisation changed the request / divergence below the head level",
    explanation="exhaustive enumeration of the real feldman_hashset metrics + the splitter the container selects, plus sequential inserts into the real FeldmanHashSet<HP>",
    design_ref="DESIGN.md 9/C28",
    level_text="Complete enumeration of the configuration space and of all short hashes; wide hashes over the stated prefix-sharing families.",
    assumptions=ENUM_ASSUMPTIONS,
)

LIN_RULE = ("every schedule with <= c preemptions (c iterated from 0; per-scenario bound in coverage.bounds) of each client program; programs come from a grammar "
            "(all 2-thread programs with 1..2 operations per thread over the operation alphabet on several sequential prefixes, modulo thread symmetry) plus curated 3-thread "
            "and deeper programs; an outcome is the per-thread sequence of (operation, argument, result); it is non-trivial when two operations of different threads overlapped in time")
BOOST = ["-lboost_thread", "-lboost_system"]

CHECKS["C06"] = dict(
    title="unbounded MPMC queues are linearizable FIFO",
    units=[dict(name="queues1", src="harness/queues.cpp", cxxflags=["-DFAMILY=1"]),
           dict(name="queues2", src="harness/queues.cpp", cxxflags=["-DFAMILY=2"]),
           dict(name="queues3", src="harness/queues.cpp", cxxflags=["-DFAMILY=3"]),
           dict(name="queues4", src="harness/queues.cpp", cxxflags=["-DFAMILY=4"], ldflags=BOOST),
           dict(name="queues5", src="harness/queues.cpp", cxxflags=["-DFAMILY=5"], ldflags=BOOST),
           dict(name="queues1-hb", src="harness/queues.cpp", cxxflags=["-DFAMILY=1"], args=["--hb"]),
           dict(name="queues2-hb", src="harness/queues.cpp", cxxflags=["-DFAMILY=2"], args=["--hb"]),
           dict(name="queues3-hb", src="harness/queues.cpp", cxxflags=["-DFAMILY=3"], args=["--hb"]),
           dict(name="queues4-hb", src="harness/queues.cpp", cxxflags=["-DFAMILY=4"], ldflags=BOOST, args=["--hb"], thorough_only=True)],
    rule=LIN_RULE,
    explanation="MSQueue, MoirQueue, BasketQueue, OptimisticQueue (HP and DHP, item counter / seq_cst variants), RWQueue (scheduler mutex and the shipped spin lock), "
                "FCQueue (elimination on/off, std::list back end); unit queues5: the intrusive MSQueue, MoirQueue, BasketQueue, OptimisticQueue (HP/DHP) and intrusive FCQueue over boost::intrusive::list - items "
                "owned by the harness, every item that went through a queue disposed exactly once by the end, never twice, and no instrumented access to an item after its disposer ran (a dequeued item may still be "
                "the queue's dummy node until then): every explored execution's call/return history (plus a sequential drain) must be linearizable to a FIFO queue",
    design_ref="DESIGN.md 9/C06, 7.1",
    level_text="Exhaustive within bounds on the real containers under the controlled scheduler; each complete execution is checked by a Wing-Gong linearizability search against a sequential FIFO.",
)

CHECKS["C07"] = dict(
    title="bounded Vyukov queue",
    units=[dict(name="bounded", src="harness/bounded.cpp"), dict(name="bounded-hb", src="harness/bounded.cpp", args=["--hb"])],
    rule=LIN_RULE,
    explanation="VyukovMPMCCycleQueue value (dynamic and static buffers, capacities 2, 4, 8), intrusive, and single-consumer front()/pop_front() variants, with the ring cycled "
                "0..3 laps before the window; histories must be linearizable to a bounded FIFO where enqueue fails only at size == capacity and dequeue only at size == 0",
    design_ref="DESIGN.md 9/C07",
    level_text="Exhaustive within bounds on the real queue; back-off waits of the claimed-but-unpublished cell are yield choices of the scheduler.",
)
CHECKS["C09"] = dict(
    title="stacks are linearizable LIFO",
    units=[dict(name="stacks1", src="harness/stacks.cpp", cxxflags=["-DFAMILY=1"]),
           dict(name="stacks2", src="harness/stacks.cpp", cxxflags=["-DFAMILY=2"]),
           dict(name="stacks3", src="harness/stacks.cpp", cxxflags=["-DFAMILY=3"], args=["--property", "C09"], ldflags=BOOST),
           dict(name="stacks4", src="harness/stacks.cpp", cxxflags=["-DFAMILY=4"], ldflags=BOOST),
           dict(name="stacks1-hb", src="harness/stacks.cpp", cxxflags=["-DFAMILY=1"], args=["--hb"]),
           dict(name="stacks2-hb", src="harness/stacks.cpp", cxxflags=["-DFAMILY=2"], args=["--hb"]),
           dict(name="stacks3-hb", src="harness/stacks.cpp", cxxflags=["-DFAMILY=3"], args=["--property", "C09", "--hb"], ldflags=BOOST, thorough_only=True)],
    rule=LIN_RULE,
    aux_names=["quiescent_states", "elimination_collisions", "aux2", "aux3"],
    explanation="TreiberStack (HP in-place and classic scan, DHP; elimination off, and on with collision arrays of 1 and 2 slots, static and dynamic, spin and mutex slot locks, "
                "2-poll and default elimination waits) and FCStack (elimination on/off); unit stacks4: the intrusive TreiberStack (HP, DHP, elimination) and intrusive FCStack over boost::intrusive::slist with items owned by "
                "the harness (an item is handed out by pop() once); includes the ABA program and 3-thread programs in which a push and a pop meet in the collision array "
                "(coverage.aux_counters.elimination_collisions counts executions' eliminated pairs)",
    design_ref="DESIGN.md 9/C09",
    level_text="Exhaustive within bounds on the real stacks; LIFO linearizability of every complete execution.",
)
CHECKS["C10"] = dict(
    title="FCDeque is a linearizable deque",
    units=[dict(name="stacks3", src="harness/stacks.cpp", cxxflags=["-DFAMILY=3"], args=["--property", "C10"], ldflags=BOOST)],
    rule=LIN_RULE,
    aux_names=["quiescent_states", "elimination_collisions", "aux2", "aux3"],
    explanation="FCDeque over std::deque and boost::container::deque, elimination on/off, combine pass counts default/1/2, mixed-end programs on empty and one-element deques "
                "(the only states where a cross-end collision is legal) incl. 3-thread same-end pair + cross-end pop",
    design_ref="DESIGN.md 9/C10",
    level_text="Exhaustive within bounds on the real FCDeque; deque linearizability of every complete execution.",
)

CHECKS["C11"] = dict(
    title="priority queues",
    units=[dict(name="pq", src="harness/pq.cpp", ldflags=BOOST),
           # the real initialized_dynamic_buffer under AddressSanitizer (quick-tier bounds; an ASan report is a violation 'C11:asan')
           dict(name="pq-asan", src="harness/pq.cpp", cxxflags=["-DPQ_REAL_BUFFER"], ldflags=BOOST, asan=True, thorough_only=True, tier_args={"thorough": ["--tier", "quick"]})],
    rule=LIN_RULE,
    aux_names=["quiescent_states", "executions_checked_against_full_pq_spec", "aux2", "aux3"],
    explanation="MSPriorityQueue (capacity() 1, 3, 7; spin and mutex node locks; heap arrays through a bounds-checked buffer, both rounded to a power of two like the default buffer and not rounded; thorough adds the default buffer under AddressSanitizer): conservation of the item multiset "
                "incl. the final drain, push fails only if capacity items can have been present, quiescent heap shape (tags, heap order, counter), and full bounded max-PQ linearizability "
                "for every history in which no push overlaps a pop; FCPriorityQueue (std::vector and std::deque back ends): full max-PQ linearizability with ties",
    design_ref="DESIGN.md 9/C11",
    level_text="Exhaustive within bounds on the real priority queues; the MSPriorityQueue oracle demands exactly what the property states (conditional linearizability).",
)

HB_NOTE = ("the *-hb unit repeats the exploration with the happens-before tracker (DESIGN 7.6): vector clocks over the memory orders libcds actually requested; a harness-owned payload "
           "access that is not ordered after the producer's write by a release/acquire chain through the container is a violation (catches publish-before-write and weakened orders, "
           "which a sequentially consistent interleaving cannot show)")

CHECKS["C12"] = dict(
    title="WeakRingBuffer SPSC FIFO",
    units=[dict(name="ring", src="harness/ring.cpp"),
           dict(name="ring-hb", src="harness/ring.cpp", args=["--hb"])],
    rule="every schedule with <= c preemptions of producer/consumer programs: typed ring (capacities 2, 3, 4; all producer sequences of <=2 operations over {push, push[2], push[3]} x consumer sequences "
         "over {pop, pop[2], front+pop_front}, empty or one-element prefix); WeakRingBuffer<void> (capacities 32, 40, 48, 64; every record-size sequence of length <=4 over {1,7,8,9,16,cap-16}, positions "
         "skewed by 0 or 16 bytes); outcome = the log of calls and results; non-trivial = a producer call overlapped a consumer call",
    explanation="exact FIFO of elements/records with exact sizes and bytes incl. the final drain; a failed push/pop must be justified by the space/elements that can have been present during the call "
                "(weakest reading); record sizes are kept inside the contract WeakRingBuffer<void>::back() asserts (real_size < capacity, i.e. size <= capacity-16). " + HB_NOTE,
    design_ref="DESIGN.md 9/C12, 7.6",
    level_text="Exhaustive within bounds on the real ring buffer (SPSC: two threads), plus the happens-before pass over payload bytes.",
)

RCU_RULE = ("every schedule with <= c preemptions of reader/writer programs (instruction lists over lock/unlock with nesting, load, dereference, swap+retire, retire, batch_retire, synchronize) "
            "on the real cds::urcu::gc<...>; flip-and-wait loops are yield choices; outcome = the log of calls and disposals; non-trivial = a read-side section exists in the execution")
CHECKS["C04"] = dict(
    title="RCU never reclaims under a pre-existing reader",
    units=[dict(name="rcu", src="harness/rcu.cpp", args=["--property", "C04"], ldflags=["-ldl"])],
    rule=RCU_RULE,
    explanation="general_instant, general_buffered (capacity 2, 4), general_threaded (capacity 2, 4; the reclamation thread is a scheduled participant through hook H3) and signal_buffered (capacity 2, 4; sigaction/pthread_kill are interposed by the harness executable and the handler runs on the target participant, immediately and atomically) with the scheduler's mutex: "
                "no disposal while a reader that entered before the retirement is still inside (nesting counted); synchronize() does not return while such a reader is inside; "
                "a pointer loaded inside a read section is never disposed before the section ends. Capacity 1 is not driven: the default buffer (VyukovMPMCCycleQueue) asserts capacity >= 2",
    design_ref="DESIGN.md 9/C04, 7.3",
    level_text="Exhaustive within bounds on the real RCU implementations under the controlled scheduler, checked by the lifetime ledger with reader intervals.",
)
CHECKS["C05"] = dict(
    title="RCU disposes exactly once",
    units=[dict(name="rcu", src="harness/rcu.cpp", args=["--property", "C05"], ldflags=["-ldl"])],
    rule=RCU_RULE,
    explanation="same programs plus sequential retire/batch_retire/synchronize/destruct histories and racing retirers on a full buffer; per-object disposer count exactly 1 by destruction of the singleton, never before a grace period",
    design_ref="DESIGN.md 9/C05, 7.3",
    level_text="Exhaustive within bounds on the real RCU implementations; exactly-once is checked per object on every execution.",
)

SET_RULE = ("every schedule with <= c preemptions of each client program; programs: all 2-thread programs with 1..2 operations per thread over {insert, erase, contains} x 2 colliding keys on 3 sequential "
            "prefixes modulo thread symmetry (2709 per container type; every program at >= 1 preemption, every k-th at 2 in the quick tier, all at 3 in the thorough tier), plus curated programs over "
            "update/upsert, insert-with-functor, emplace, erase-with-functor, extract, get, find-with-functor, extract_min/max, growth and 3-thread programs; the final contents (find of every key) "
            "are appended to each history; outcome = per-thread (operation, argument, result) sequences; non-trivial = operations of different threads overlapped")
SET_EXPL_TAIL = (" Item values are fixed at construction and poisoned at destruction, so a read through a guarded/exempt/raw pointer to a disposed item shows up as a wrong value. "
                 "C18 post-conditions run at the quiescent point of every execution.")

def _units(src, fams, extra=None, ld=None):
    out = []
    for f in fams:
        u = dict(name="%s%d" % (src.split("/")[-1].split(".")[0].replace("sets_", ""), f), src=src, cxxflags=["-DFAMILY=%d" % f])
        if ld: u["ldflags"] = ld
        out.append(u)
    return out

CHECKS["C13"] = dict(
    deadline=dict(quick=240, thorough=900),
    title="ordered lists are linearizable sets",
    units=_units("harness/sets_lists.cpp", [1, 2, 3, 4, 5, 6, 7]),
    rule=SET_RULE,
    explanation="MichaelList, LazyList, IterableList (HP with less, DHP with compare / seq_cst model, RCU general_buffered and general_instant; nogc insert-only variants; the intrusive MichaelList/HP, LazyList/DHP, IterableList/HP, MichaelList and LazyList/RCU with unlink(item), "
                "where the harness owns the items: an inserted item is disposed exactly once by the time container and SMR are destroyed, a refused item never, and no instrumented access touches an item after its disposer ran): "
                "set/map linearizability of every execution." + SET_EXPL_TAIL,
    design_ref="DESIGN.md 9/C13, 7.1",
    level_text="Exhaustive within bounds on the real lists; Wing-Gong linearizability check of every complete execution against a sequential map.",
)
CHECKS["C14"] = dict(
    deadline=dict(quick=240, thorough=900),
    title="hash sets are linearizable incl. growth",
    units=_units("harness/sets_hash.cpp", [1, 2, 3, 4, 5, 6]),
    rule=SET_RULE,
    explanation="MichaelHashSet (2 buckets, colliding hash; Michael/Lazy/Iterable lists; HP, DHP, RCU), SplitListSet (dynamic and static bucket tables of at most 8 buckets, load factor 1, so the 3rd and 5th "
                "insert double the table and later operations initialise buckets recursively; Michael/Lazy/Iterable lists; HP, DHP, RCU), FeldmanHashSet (head/array bits 4/2, hashes sharing 4, 6 and 8 low bits "
                "so inserts expand slots into array nodes; HP, DHP, RCU); unit hash5: the intrusive MichaelHashSet, SplitListSet (HP) and FeldmanHashSet (HP, RCU) with unlink(item), items owned by the harness "
                "(disposer contract: inserted items disposed exactly once, refused items never, no access to an item after its disposer ran); unit hash6: the map classes MichaelHashMap over MichaelKVList (HP, RCU), "
                "SplitListMap and FeldmanHashMap (HP) behind the same adapter (harness/maps.h)." + SET_EXPL_TAIL,
    design_ref="DESIGN.md 9/C14",
    level_text="Exhaustive within bounds on the real hash sets incl. programs that race with table growth, bucket initialisation and slot expansion.",
)
CHECKS["C15"] = dict(
    deadline=dict(quick=240, thorough=900),
    title="skip lists and trees are linearizable ordered sets",
    units=[dict(name="trees1-s1", src="harness/sets_trees.cpp", cxxflags=["-DFAMILY=1"], args=["--script", "1"]),
           dict(name="trees1-s0", src="harness/sets_trees.cpp", cxxflags=["-DFAMILY=1"], args=["--script", "0"], thorough_only=True),
           dict(name="trees1-s2", src="harness/sets_trees.cpp", cxxflags=["-DFAMILY=1"], args=["--script", "2"], thorough_only=True),
           dict(name="trees2-s0", src="harness/sets_trees.cpp", cxxflags=["-DFAMILY=2"], args=["--script", "0"]),
           dict(name="trees2-s2", src="harness/sets_trees.cpp", cxxflags=["-DFAMILY=2"], args=["--script", "2"]),
           dict(name="trees2-s1", src="harness/sets_trees.cpp", cxxflags=["-DFAMILY=2"], args=["--script", "1"], thorough_only=True)] +
          _units("harness/sets_trees.cpp", [3, 4, 5]) +
          [dict(name="trees6-s1", src="harness/sets_trees.cpp", cxxflags=["-DFAMILY=6"], args=["--script", "1"])],
    rule=SET_RULE,
    explanation="unit trees6: the map classes SkipListMap (HP, RCU) and EllenBinTreeMap (HP) behind the same adapter (harness/maps.h). SkipListSet (4-level scripted tower heights: all low, all high, mixed; HP, DHP, RCU), EllenBinTreeSet (HP, DHP, RCU), BronsonAVLTreeMap (RCU; injecting monitor over the shipped spin lock and over a mutex, "
                "pool monitor over vyukov_queue_pool): set/map linearizability; extract_min/max: empty only if the container was empty at a linearization point inside the call, the key returned was present, "
                "and no key present during the whole call is smaller (larger)." + SET_EXPL_TAIL,
    design_ref="DESIGN.md 9/C15, 7.2",
    level_text="Exhaustive within bounds on the real skip lists and trees; operations of EllenBinTree/Bronson are long, so their quick tier runs a thinner program set.",
)
CHECKS["C18"] = dict(
    deadline=dict(quick=240, thorough=900),
    title="quiescent structure is well-formed",
    units=[dict(name="lists1", src="harness/sets_lists.cpp", cxxflags=["-DFAMILY=1"], args=["--property", "C18"], tier_args=dict(quick=["--bound", "1"])),
           dict(name="lists3", src="harness/sets_lists.cpp", cxxflags=["-DFAMILY=3"], args=["--property", "C18"], tier_args=dict(quick=["--bound", "1"])),
           dict(name="lists2", src="harness/sets_lists.cpp", cxxflags=["-DFAMILY=2"], args=["--property", "C18"], tier_args=dict(quick=["--bound", "1"])),
           dict(name="hash2", src="harness/sets_hash.cpp", cxxflags=["-DFAMILY=2"], args=["--property", "C18"], tier_args=dict(quick=["--bound", "1"])),
           dict(name="trees1-s1", src="harness/sets_trees.cpp", cxxflags=["-DFAMILY=1"], args=["--property", "C18", "--script", "1"], tier_args=dict(quick=["--bound", "1"])),
           dict(name="trees2-s2", src="harness/sets_trees.cpp", cxxflags=["-DFAMILY=2"], args=["--property", "C18", "--script", "2"], tier_args=dict(quick=["--bound", "1"])),
           dict(name="trees3", src="harness/sets_trees.cpp", cxxflags=["-DFAMILY=3"], args=["--property", "C18"], tier_args=dict(quick=["--bound", "1"])),
           dict(name="trees5", src="harness/sets_trees.cpp", cxxflags=["-DFAMILY=5"], args=["--property", "C18"], tier_args=dict(quick=["--bound", "1"]))],
    rule=SET_RULE + "; for C18 only the quiescent post-conditions are judged (aux counter quiescent_states = number of quiescent points examined)",
    aux_names=["quiescent_states", "aux1", "aux2", "aux3"],
    explanation="post-condition evaluated at the quiescent point reached by every explored execution of the C13/C14/C15 programs: traversal strictly increasing (ordered containers) / without duplicates (hash sets) "
                "and equal to the keys contains() finds; size()/empty() agree with the contents; EllenBinTree and BronsonAVLTreeMap check_consistency(); every skip-list level is a strictly ordered sub-list of "
                "the level below with no marked link left",
    design_ref="DESIGN.md 9/C18",
    level_text="Evaluated on every quiescent state reached by the exhaustive bounded exploration (quick: one preemption; thorough: the hosts' bounds).",
)

CHECKS["C16"] = dict(
    deadline=dict(quick=240, thorough=900),
    title="lock-based hash containers across resizes",
    units=_units("harness/sets_lock.cpp", [1, 2, 3, 4]),
    rule=SET_RULE,
    explanation="CuckooSet (striping and refinable mutex policies over the scheduler's recursive mutex; list and vector<2> probe sets; stored hashes on/off; initial size 4, probe set 2, threshold 1 so that the "
                "third colliding insert relocates and the fifth resizes; two colliding hash functions) and StripedSet (std::list and std::set buckets; striping and refinable policies; a bucket of more than "
                "one item triggers a resize of the 16-bucket table): programs race the insert that resizes with operations on keys that move, two resizers, and update/find; deadlock = violation. Unit lock4: CuckooMap (striping list with stored hashes, refinable vector<2>) and StripedMap (std::list, std::map) behind the same adapter." + SET_EXPL_TAIL,
    design_ref="DESIGN.md 9/C16",
    level_text="Exhaustive within bounds on the real containers; blocking on the policy's mutexes is handled by the scheduler, so lock-order deadlocks are found as such.",
)

CHECKS["C22"] = dict(
    title="spin locks and node monitors",
    units=[dict(name="locks", src="harness/locks.cpp")],
    rule="every schedule with <= c preemptions (c up to 6 for two threads, 3 for three) of lock/unlock/try_lock programs with a scheduling point inside each critical section, on 1..3 locks or nodes; "
         "outcome = the order in which critical sections were entered and left; every outcome is non-trivial (two threads compete for a lock in every program)",
    explanation="spin_lock, reentrant_spin_lock (nesting 2, try_lock by another thread between the nested unlocks), lock_array (two cells, three hints so two hints share a cell), injecting_monitor, "
                "pool_monitor over vyukov_queue_pool (capacity 1 with the shipped spin lock, capacity 2 with a mutex; 3 nodes): occupancy of every critical section <= 1, a reentrant lock is released only by its "
                "owner's last unlock, a node inside its critical section owns a pool lock that no other in-use node shares, every pool lock is back in the pool at the quiescent point; deadlock/livelock = violation",
    design_ref="DESIGN.md 9/C22, 7.5",
    level_text="Exhaustive within bounds on the real locks and monitors (for two threads the bound is high enough to cover most interleavings of these short programs).",
)

CHECKS["C21"] = dict(
    title="free lists",
    units=[dict(name="freelist", src="harness/freelist.cpp")],
    rule="every schedule with <= c preemptions of put/get programs (all unordered pairs of 7 thread programs over {get, put-back, put-own} on lists pre-filled with 0..2 nodes, plus 3-thread programs in which a getter "
         "holds a reference while others take the node and put it back); outcome = the log of puts and gets with node identities; every program makes two threads compete for the same nodes",
    explanation="FreeList, TaggedFreeList (16-byte CAS through the instrumented atomics) and CachedFreeList over both (cache size 4): owner map - a node returned by get() is held by nobody; at the quiescent point "
                "draining the list yields exactly the nodes that were put and not taken, each once",
    design_ref="DESIGN.md 9/C21, 7.5",
    level_text="Exhaustive within bounds on the real free lists.",
)

CHECKS["C24"] = dict(
    title="object pools",
    units=[dict(name="pools", src="harness/pools.cpp"), dict(name="pools-hb", src="harness/pools.cpp", args=["--hb"])],
    rule="every schedule with <= c preemptions of allocate/deallocate programs (all unordered pairs of 10 thread programs over {allocate, deallocate-newest, deallocate-oldest}, started with 0..3 objects already "
         "held so that a pool of capacity 2 is used from untouched to past its capacity; 3-thread programs; a reduced program set through pool_allocator); outcome = the log of allocations and deallocations with object identities",
    explanation="vyukov_queue_pool, lazy_vyukov_queue_pool and bounded_vyukov_queue_pool of capacity 2 (real VyukovMPMCCycleQueue underneath), directly and through pool_allocator<T, accessor>: "
                "owner map - allocate() never returns an object that is allocated to somebody and not yet deallocated; a ledger of the pool's own allocator catches double frees, frees of preallocated objects and leaks after "
                "the pool is destroyed; bad_alloc of the bounded pool is accepted only if at some moment of the call no object was certainly free; at the quiescent point, after everything was deallocated, the pool must serve "
                "its capacity again without going to the heap (preallocated / bounded) or with exactly capacity - live objects new heap allocations (lazy). " + HB_NOTE,
    design_ref="DESIGN.md 9/C24, 7.5",
    level_text="Exhaustive within bounds on the real pools.",
)

CHECKS["C23"] = dict(
    title="flat-combining kernel",
    units=[dict(name="fc1", src="harness/fc.cpp", cxxflags=["-DFAMILY=1"], ldflags=BOOST),
           dict(name="fc2", src="harness/fc.cpp", cxxflags=["-DFAMILY=2"], ldflags=BOOST),
           dict(name="fc3", src="harness/fc.cpp", cxxflags=["-DFAMILY=3"], ldflags=BOOST),
           dict(name="fc1-hb", src="harness/fc.cpp", cxxflags=["-DFAMILY=1"], ldflags=BOOST, args=["--hb"]),
           dict(name="fc3-hb", src="harness/fc.cpp", cxxflags=["-DFAMILY=3"], ldflags=BOOST, args=["--hb"])],
    rule="every schedule with <= c preemptions of requester programs over {combine, batch_combine, invoke_exclusive, thread exit} (all unordered pairs of 10 thread programs, plus 3-thread programs in which one thread "
         "exits while another compacts or walks the publication list) on a minimal container that owns a real flat_combining::kernel; compact factor and combine pass count at their minimums (1 and 2; 1 and 2); "
         "outcome = the log of requests, executions (who executed which request) and responses",
    aux_names=["publication_records_allocated", "thread_exits_inside_window", "aux2", "aux3"],
    explanation="kernel<Rec, Traits> with the wait strategies backoff, empty, single_mutex_single_condvar, single_mutex_multi_condvar, multi_mutex_multi_condvar (hook H4 makes their mutexes and condition variables "
                "scheduler-aware; timed waits may time out at any point): per-request execution counter (exactly once, never after the response was taken), occupancy monitor of fc_apply / fc_process / invoke_exclusive "
                "with a scheduling point inside and a check that the global lock is held, the response read by the requester is the value produced by the execution, final value = sum of requests; publication records come "
                "from a quarantining allocator that reports deleted records to the engine: every instrumented access inside a deleted record is a use-after-free violation, double deletes are violations, records of "
                "exited threads must be deleted after two further compactions and nothing may be left after the kernel is destroyed. " + HB_NOTE,
    design_ref="DESIGN.md 9/C23, 7.5",
    level_text="Exhaustive within bounds on the real kernel.",
)

CHECKS["C08"] = dict(
    title="SegmentedQueue conserves items and bounds reordering",
    units=[dict(name="segq1", src="harness/segq.cpp", cxxflags=["-DFAMILY=1"]),
           dict(name="segq2", src="harness/segq.cpp", cxxflags=["-DFAMILY=2"]),
           dict(name="segq3", src="harness/segq.cpp", cxxflags=["-DFAMILY=3"]),
           dict(name="segq1-hb", src="harness/segq.cpp", cxxflags=["-DFAMILY=1"], args=["--hb"])],
    rule="every schedule with <= c preemptions (plus, for the 'choose' families, every start cell of every scan as an environment choice: a start other than cell 0 costs one deviation) of enqueue/dequeue programs: all "
         "unordered pairs of thread programs of length 1..2 on queues pre-filled with 0..3 items (quasi factor 2: the third item opens a second segment) plus deeper and 3-thread programs around the segment boundary; "
         "outcome = per-thread log of operations with results",
    aux_names=["histories_checked_against_all_four_rules", "aux1", "aux2", "aux3"],
    explanation="container::SegmentedQueue and intrusive::SegmentedQueue (HP and DHP; spin lock and scheduler-aware mutex for the segment list; quasi factors 2, 3 (rounded to 4), 4 and 8; the random permutation "
                "generator is replaced through the traits by one whose start cell the explorer decides, or by fixed ascending / descending scans). Checked on every history incl. the final drain: (1) conservation - every "
                "enqueued value comes out exactly once and nothing else does; (2) quasi-FIFO bound - when x is dequeued, fewer than quasi-factor values whose enqueue returned before x's enqueue was invoked are still "
                "inside (counted only if their dequeue was invoked after x's dequeue returned); (3) an empty answer only if every value whose enqueue returned before the call was invoked was taken by a dequeue invoked "
                "before the call returned; (4) size()/empty() at the quiescent point equal the number of values the drain finds. " + HB_NOTE,
    design_ref="DESIGN.md 9/C08",
    level_text="Exhaustive within bounds on the real queue.",
)

def _iter_units():
    out = []
    for src, short, fams in (("harness/sets_lists.cpp", "lists", [3, 6]), ("harness/sets_hash.cpp", "hash", [1, 3, 4, 5])):
        for f in fams:
            out.append(dict(name="iter-%s%d" % (short, f), src=src, cxxflags=["-DFAMILY=%d" % f], args=["--property", "C19"]))
    return out

CHECKS["C19"] = dict(
    title="thread-safe iterators",
    units=_iter_units(),
    rule="every schedule with <= c preemptions of programs with one (or two) iterating threads against updating threads on a container holding three colliding keys: iteration vs delete of the first / middle / last "
         "element, vs insert of a new key (which splits a Feldman slot, or links a node next to the iterator's), vs upsert (replace), vs delete+reinsert; iterate-then-erase_at(it) vs delete / upsert / another erase_at / "
         "an adjacent insert; forward and reverse iterators for Feldman; 3-thread variants; outcome = history incl. the sequence of keys each iteration visited",
    explanation="IterableList (container HP/DHP, intrusive HP), MichaelHashSet and SplitListSet over IterableList, FeldmanHashSet (container HP/DHP/RCU, intrusive HP/RCU; head/array bits 4/2 so that the concurrent insert splits "
                "a slot under the iterator). Rules, all conservative with respect to the recorded invocation/response order: (a) the element the iterator is positioned on has not been disposed (intrusive: disposer flag; "
                "container: poisoned destructor) and no instrumented access touches a disposed item; (b) a key whose insertion returned before the iteration was invoked, with no removal/replacement invoked before the "
                "iteration returned, is visited - exactly once (IterableList and the hash sets over it) or at least once (Feldman); IterableList visits keys in strictly increasing order; (c) every visited element was "
                "inserted by somebody before the iteration ended and not removed before it began; (d) erase_at(it) is an operation of the linearizability history: it removes exactly the element the iterator points to "
                "(identity = value) and may fail only if that element is no longer the one stored under the key.",
    design_ref="DESIGN.md 9/C19",
    level_text="Exhaustive within bounds on the real iterators.",
)

def _seq_units():
    out = []
    spec = [("harness/sets_lists.cpp", "lists", [1, 2, 3, 4, 5, 6, 7], None), ("harness/sets_hash.cpp", "hash", [1, 2, 3, 4, 5], None),
            ("harness/sets_trees.cpp", "trees", [1, 2, 3, 4, 5], None), ("harness/sets_lock.cpp", "lock", [1, 2, 3], None),
            ("harness/queues.cpp", "queues", [1, 2, 3, 4, 5], BOOST), ("harness/stacks.cpp", "stacks", [1, 2, 3, 4], BOOST)]
    for src, short, fams, ld in spec:
        for f in fams:
            u = dict(name="seq-%s%d" % (short, f), src=src, cxxflags=["-DFAMILY=%d" % f], args=["--property", "C20"])
            if ld: u["ldflags"] = ld
            out.append(u)
    out.append(dict(name="seq-pq", src="harness/pq.cpp", ldflags=BOOST, args=["--property", "C20"]))
    out.append(dict(name="seq-bounded", src="harness/bounded.cpp", args=["--property", "C20"]))
    return out

CHECKS["C20"] = dict(
    engine="seqmc", technique='model checking: exhaustive enumeration of every sequence of API calls up to a stated depth (and, for C17, of every configuration of a grid), each replayed on the real implementation and compared step by step with a reference model (explicit exploration of operation sequences, no sampling)',
    title="single-threaded API vs reference model",
    units=_seq_units(),
    rule="seqmc: every sequence of API calls up to depth d (quick 3, thorough 4 for sets and maps; 5..8 for queues, stacks, deques, priority queues) over the container's whole operation alphabet on colliding keys, from "
         "the empty container and from a populated start state (one that has already grown its table / split slots / filled the ring), each replayed on a fresh container; one engine 'execution' is one "
         "(variant, start state, first operation) subtree; aux counters give the number of sequences and operations",
    aux_names=["unused", "sequences_replayed", "operations_checked", "aux3"],
    execs_aux=1,
    explanation="all set and map variants of C13-C16 (lists, hash sets and maps, skip lists, trees, cuckoo/striped sets and maps; HP, DHP, RCU, nogc; container and intrusive classes) against std::map, the queues of C06/C07 against (bounded) "
                "std::deque, stacks and FCDeque against std::vector/std::deque, priority queues against std::priority_queue: after every call the return value (incl. the update() pair), the value seen by find/erase/"
                "extract functors, the number of insert/update functor calls and the update functor's new-item flag are compared with the model; after every call on a set the membership and value of every key of the "
                "universe, size(), empty() and the traversal are compared too, extract_min/extract_max must return the exact extreme key; queues are drained at the end of every sequence; intrusive variants: every "
                "inserted item is disposed exactly once by the end, refused items never; clear() is part of the alphabet",
    design_ref="DESIGN.md 5, 9/C20",
    level_text="Exhaustive over all call sequences up to the stated depth on the real single-threaded API.",
)

CHECKS["C17"] = dict(
    engine="seqmc", technique='model checking: exhaustive enumeration of every sequence of API calls up to a stated depth (and, for C17, of every configuration of a grid), each replayed on the real implementation and compared step by step with a reference model (explicit exploration of operation sequences, no sampling)',
    title="resize/rehash loses nothing for any hash functions",
    units=[dict(name="rehash%d" % f, src="harness/rehash.cpp", cxxflags=["-DFAMILY=%d" % f]) for f in (1, 2, 3, 4)],
    rule="seqmc over a configuration grid: for every configuration (container kind x locking policy x probe-set kind/size/threshold or resizing policy or bucket-table kind x initial capacity / load factor x hash-function tuple) "
         "every sequence of up to d calls (quick 4, thorough 6) over {insert of 6-7 keys, erase of 2 keys}, each replayed on a fresh container; one engine 'execution' is one (configuration, first insert) subtree",
    aux_names=["unused", "sequences_replayed", "operations_checked", "inserts_skipped_as_unplaceable"],
    execs_aux=1,
    explanation="CuckooSet (striping/refinable; list probe sets of size 1, 2, 4 and vector<2>, vector<4>; thresholds; store_hash on/off; initial size 4) with 12 hash-function pairs of which at least one is degenerate "
                "(constant, one bit, pairs of keys colliding, low three bits zero, entropy only above bit 32, two all-bits values, key mod 4, identity, complement, a good hash); StripedSet over std::list/std::set/"
                "std::vector with single_bucket_size_threshold<1|2>, load_factor_resizing<1|2>, rational_load_factor_resizing<1,2>, striping/refinable, capacities 1 and 4; SplitListSet (Michael/Lazy list, dynamic "
                "and static bucket table) with item counts 2..16 and load factors 1..4; FeldmanHashSet with hash patterns sharing 0, 8, 32 and 56 low bits and head/array bits 4/2, 4/4, 8/3. After every call: the "
                "call's result, membership and value of every key of the universe, size() and empty() against std::map. CuckooSet inserts that would make more than 2 x probe-set-size present keys share one hash "
                "tuple are skipped and counted (the algorithm cannot place them); any other non-terminating loop exhausts a budget of 3e6 instrumented steps per sequence and is reported as 'no-progress'",
    design_ref="DESIGN.md 5, 9/C17, 14.5",
    level_text="Exhaustive over all call sequences up to the stated depth for every configuration of the grid, on the real containers.",
)
