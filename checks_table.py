# Table of checks: which harness binaries decide which property, and the words that go into evidence/MANIFEST.
# ./check reads it; gen_manifest.py renders MANIFEST.json from it.

COMMON_ASSUMPTIONS = [
    "sequentially consistent interleavings of atomic steps only (weaker memory orders are forwarded to the real std::atomic but their reorderings are not explored); compare_exchange_weak never fails spuriously",
    "plain (non-atomic) accesses between two scheduling points are executed atomically (sound for data-race-free code)",
    "bounded programs: the thread counts, operation counts, key ranges and the preemption bound reported in coverage.bounds",
    "trusted: the cdsmc scheduler/explorer, the reference models and oracles in /verif/harness, gcc 12",
]

SMR_RULE = ("every schedule of each scenario (small per-thread programs over the real reclamation API) with at most c preemptions, "
            "c iterated 0..bound; every back-off iteration is a yield choice. An outcome is the disposal log of the execution; it is "
            "non-trivial when a guard interval and a retire of the same object are both present. distinct = distinct outcomes per scenario, summed")

CHECKS = {}

CHECKS["C01"] = dict(
    title="HP never frees a protected object",
    units=[dict(name="smr", src="harness/smr.cpp", args=["--property", "C01"])],
    rule=SMR_RULE,
    explanation="stateless preemption-bounded exploration of protect/retire/scan/detach programs on the real cds::gc::HP "
                "(classic and in-place scan, minimal H/N/R, even and odd addresses); lifetime ledger: no dispose while a guard that "
                "protected the object before the pass began still holds it, no dereference of a disposed object through a validated guard",
    design_ref="DESIGN.md 9/C01, 7.3",
    level_text="Exhaustive within the stated bounds on the real implementation: every interleaving with <= c preemptions of each program is "
               "executed and checked by the ledger. Right level because the property is quantified over schedules and configurations the suite never owns.",
)

CHECKS["C02"] = dict(
    title="DHP never frees a protected object",
    units=[dict(name="smr", src="harness/smr.cpp", args=["--property", "C02"])],
    rule=SMR_RULE,
    explanation="same programs over cds::gc::DHP plus extension guard blocks published during a scan, multi-block retired lists, "
                "record reuse vs help_scan; ledger rules as C01",
    design_ref="DESIGN.md 9/C02, 7.3",
    level_text="Exhaustive within bounds on the real DHP implementation; long set-up (hundreds of guards/retires) runs unexplored in the prologue, the racing window is explored.",
)

CHECKS["C03"] = dict(
    title="HP/DHP dispose every retired object exactly once",
    units=[dict(name="smr", src="harness/smr.cpp", args=["--property", "C03"])],
    rule=SMR_RULE,
    explanation="HP and DHP programs (sequential histories incl. the DHP retired-array growth menu g in {0,1,63,64,192,193,200,255,256} of 256, "
                "and concurrent retire/scan/detach/adopt programs); per-object disposer count must be exactly 1 by singleton destruction, 0 while "
                "guarded at scan, and a pass with no guard on a retired object must free it",
    design_ref="DESIGN.md 9/C03, 7.3",
    level_text="Exhaustive within bounds on the real implementation; exactly-once is checked per object on every execution.",
)
