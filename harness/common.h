// Shared helpers for cdsmc harnesses.
#ifndef VERIF_HARNESS_COMMON_H
#define VERIF_HARNESS_COMMON_H

#include <cds_verif/cdsmc.h>
#include <cds_verif/lin.h>
#include <cds_verif/sync.h>
#include <cstring>
#include <string>
#include <vector>
#include <memory>

namespace vh {

// The property this binary is being run for ("C01", ...). Oracles whose failure class belongs to another
// property stay silent (that other property's check runs the same scenario with the class enabled).
inline std::string& property() { static std::string p; return p; }

// reads "--property X" from argv (main_run skips it)
inline void take_property( int argc, char** argv, const char* dflt )
{
    property() = dflt;
    for ( int i = 1; i + 1 < argc; ++i )
        if ( !strcmp( argv[i], "--property" )) property() = argv[i + 1];
}

inline bool wants( const char* prop ) { return property() == prop; }

// signature "Cxx:what"
inline bool sig_enabled( std::string const& sig )
{
    size_t c = sig.find( ':' );
    if ( c == std::string::npos ) return true;
    return sig.compare( 0, c, property()) == 0;
}

// violation detected in the middle of an execution
inline void fail_mid( std::string const& sig, std::string const& msg )
{
    if ( !sig_enabled( sig )) return;
    cds_verif::fail_sig( sig.c_str(), msg.c_str());
}

template <class R, class... A>
inline std::function<std::unique_ptr<cdsmc::Run>()> maker( A... a )
{
    return [=]() { return std::unique_ptr<cdsmc::Run>( new R( a... )); };
}

} // namespace vh

#endif
