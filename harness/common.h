// Shared helpers for cdsmc harnesses.
#ifndef VERIF_HARNESS_COMMON_H
#define VERIF_HARNESS_COMMON_H

#include <cds_verif/cdsmc.h>
#include <cds_verif/lin.h>
#include <cds_verif/sync.h>
#include <cstring>
#include <string>
#include <vector>
#include <memory>

namespace vh {

// The property this binary is being run for ("C01", ...). Oracles whose failure class belongs to another
// property stay silent (that other property's check runs the same scenario with the class enabled).
inline std::string& property() { static std::string p; return p; }

// reads "--property X" from argv (main_run skips it)
inline void take_property( int argc, char** argv, const char* dflt )
{
    property() = dflt;
    for ( int i = 1; i + 1 < argc; ++i )
        if ( !strcmp( argv[i], "--property" )) property() = argv[i + 1];
}

inline bool wants( const char* prop ) { return property() == prop; }

// signature "Cxx:what"
inline bool sig_enabled( std::string const& sig )
{
    size_t c = sig.find( ':' );
    if ( c == std::string::npos ) return true;
    return sig.compare( 0, c, property()) == 0;
}

// violation detected in the middle of an execution
inline void fail_mid( std::string const& sig, std::string const& msg )
{
    if ( !sig_enabled( sig )) return;
    cds_verif::fail_sig( sig.c_str(), msg.c_str());
}

} // namespace vh

// AddressSanitizer units: a memory error inside an execution is a violation of the property under check (memory safety is a
// precondition of all of them); the report is printed by ASan, the schedule is recorded by the engine like any other violation
#if defined(__SANITIZE_ADDRESS__)
extern "C" __attribute__((used)) void __asan_on_error()
{
    if ( getenv( "CDSMC_ASAN_REPORT" )) return;     // diagnosis: let AddressSanitizer print its report and abort (use with --replay)
    std::string sig = vh::property() + ":asan";
    cds_verif::fail_sig( sig.c_str(), "AddressSanitizer reported a memory error in library code during this execution (see the replay output)" );
}
#endif

namespace vh {
template <class R, class... A>
inline std::function<std::unique_ptr<cdsmc::Run>()> maker( A... a )
{
    return [=]() { return std::unique_ptr<cdsmc::Run>( new R( a... )); };
}

} // namespace vh

#endif
