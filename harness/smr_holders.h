// SMR singletons as RAII holders with the smallest legal configuration (so that reclamation passes happen inside
// the explored window), plus thread attach/detach helpers.
#ifndef VERIF_HARNESS_SMR_HOLDERS_H
#define VERIF_HARNESS_SMR_HOLDERS_H

#include <cds/init.h>
#include <cds/gc/hp.h>
#include <cds/gc/dhp.h>
#include <cds/gc/nogc.h>
#include <cds/threading/model.h>
#include <cds_verif/sync.h>

namespace vh {

inline void attach() { cds::threading::Manager::attachThread(); }
inline void detach() { cds::threading::Manager::detachThread(); }

// Hazards: hazard pointers per thread the container needs (+1 for guarded_ptr use by the harness)
template <size_t Hazards, bool Classic = false>
struct HpHolder {
    typedef cds::gc::HP gc;
    cds::gc::HP hp;
    // retired capacity H*N+1: the documented minimum, so scans happen after a handful of retires
    explicit HpHolder( int threads )
        : hp( Hazards, size_t( threads ), Hazards * size_t( threads ) + 1, Classic ? cds::gc::HP::scan_type::classic : cds::gc::HP::scan_type::inplace ) {}
    static const char* name() { return Classic ? "HPc" : "HP"; }
};

struct DhpHolder {
    typedef cds::gc::DHP gc;
    cds::gc::DHP dhp;
    explicit DhpHolder( int ): dhp( 4 ) {}
    static const char* name() { return "DHP"; }
};

struct NoSmr {
    explicit NoSmr( int ) {}
    static const char* name() { return "none"; }
};

// RCU flavours with the scheduler's mutex as their lock (a real std::mutex held by a descheduled participant would hang the process)
} // namespace vh
#include <cds/urcu/general_instant.h>
#include <cds/urcu/general_buffered.h>
#include <cds/urcu/general_threaded.h>
namespace vh {

typedef cds::urcu::gc< cds::urcu::general_instant< cds_verif::mutex > > rcu_gpi;
typedef cds::urcu::gc< cds::urcu::general_buffered< cds::container::VyukovMPMCCycleQueue< cds::urcu::epoch_retired_ptr >, cds_verif::mutex > > rcu_gpb;
typedef cds::urcu::gc< cds::urcu::general_threaded< cds::container::VyukovMPSCCycleQueue< cds::urcu::epoch_retired_ptr >, cds_verif::mutex > > rcu_gpt;

// small buffer (2): reclamation happens inside the explored window
struct GpbHolder { typedef rcu_gpb gc; rcu_gpb rcu; explicit GpbHolder( int ): rcu( 2 ) {} static const char* name() { return "RCUgpb"; } };
struct GpiHolder { typedef rcu_gpi gc; rcu_gpi rcu; explicit GpiHolder( int ) {} static const char* name() { return "RCUgpi"; } };
struct GptHolder { typedef rcu_gpt gc; rcu_gpt rcu; explicit GptHolder( int ): rcu( 2 ) {} static const char* name() { return "RCUgpt"; } };

} // namespace vh

#endif
