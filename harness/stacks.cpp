// C09: stacks are linearizable LIFO stacks, with or without elimination (DESIGN.md 9/C09)
// C10: FCDeque is a linearizable double-ended queue (FAMILY 3)
#include "cont.h"
#include "seq.h"
#include "smr_holders.h"

#ifndef FAMILY
#   define FAMILY 1
#endif

#if FAMILY == 1 || FAMILY == 2
#   include <cds/container/treiber_stack.h>
#elif FAMILY == 4
#   include <cds/intrusive/treiber_stack.h>
#   include <cds/intrusive/fcstack.h>
#   include <boost/intrusive/slist.hpp>
#elif FAMILY == 3
#   include <cds/container/fcstack.h>
#   include <cds/container/fcdeque.h>
#   include <boost/container/deque.hpp>
#   include <list>
#   include <vector>
#endif

using namespace vh;
using namespace cdsmc;
namespace cc = cds::container;

namespace {

struct SCfg { int nthreads; int collision; int flip; };  // flip: which push overload odd/even values go through

// deterministic "random" slot engine: the slot sequence is part of the configuration, not a random source
struct engine_zero { typedef unsigned int result_type; unsigned int operator()() { return 0; } };
struct engine_alt { typedef unsigned int result_type; unsigned int n = 0; unsigned int operator()() { return n++; } };

// 2-poll elimination wait so that the time-out is reachable within the deviation budget
struct short_delay_traits { typedef std::chrono::milliseconds duration_type; enum: unsigned { timeout = 3 }; };
typedef cds::backoff::delay<short_delay_traits> short_delay;

template <class S> inline void thread_exit_hook( S& ) {}
#if FAMILY == 3
template <class T, class C, class Tr> inline void thread_exit_hook( cc::FCStack<T, C, Tr>& s ) { s.m_FlatCombining.m_pThreadRec.reset(); }
template <class T, class C, class Tr> inline void thread_exit_hook( cc::FCDeque<T, C, Tr>& s ) { s.m_FlatCombining.m_pThreadRec.reset(); }
#endif

template <class S, bool Dyn> struct make_s { static S* make( int ) { return new S; } };
template <class S> struct make_s<S, true> { static S* make( int n ) { return new S( size_t( n )); } };

template <class S> inline long collisions_of( S& , std::false_type ) { return 0; }
template <class S> inline auto collisions_of( S& s, std::true_type ) -> decltype( long( s.statistics().m_nCollided.get())) { return long( s.statistics().m_nCollided.get()); }
template <class S> inline auto collisions_of( S& s, std::true_type ) -> decltype( long( s.statistics().m_ActivePushCollision.get()))
{
    auto const& st = s.statistics();
    return long( st.m_ActivePushCollision.get() + st.m_ActivePopCollision.get());
}

template <class S, class Smr, bool DynCollision = false, bool HasStat = false>
struct StackAdapter
{
    SCfg cfg; std::unique_ptr<Smr> smr; std::unique_ptr<S> s;
    explicit StackAdapter( SCfg c ): cfg( c ) {}
    static const char* property() { return "C09"; }
    void setup() { smr.reset( new Smr( cfg.nthreads + 1 )); attach(); s.reset( make_s<S, DynCollision>::make( cfg.collision )); }
    void teardown() { s.reset(); detach(); smr.reset(); }
    void thread_begin( int ) { attach(); }
    void thread_end( int ) { thread_exit_hook( *s ); detach(); }
    void apply( int t, History& h, POp const& op )
    {
        switch ( op.op ) {
        case PUSH: {
            int i = h.call( t, PUSH, op.a ); Payload pl( op.a );
            bool ok = (( op.a + cfg.flip ) & 1 ) ? s->push( pl ) : s->push( std::move( pl ));      // both overloads
            h.ret( i, ok ); break;
        }
        case POP: { int i = h.call( t, POP ); Payload v; bool ok = s->pop( v ); h.ret( i, ok, ok ? v.read() : 0 ); break; }
        case EMPTY: { int i = h.call( t, EMPTY ); h.ret( i, s->empty() ? 1 : 0 ); break; }
        case CLEAR: { int i = h.call( t, CLEAR ); s->clear(); h.ret( i, 1 ); break; }
        default: break;
        }
    }
    void drain( History& h )
    {
        for ( int n = 0; n < 64; ++n ) { int i = h.call( -1, POP ); Payload v; bool ok = s->pop( v ); h.ret( i, ok, ok ? v.read() : 0 ); if ( !ok ) break; }
        int i = h.call( -1, EMPTY ); h.ret( i, s->empty());
    }
    long collisions = 0;
    void quiescent( Result&, History const& ) { collisions = collisions_of( *s, std::integral_constant<bool, HasStat>()); }
    void post_check( Result& r, History const& ) { r.aux[1] = uint64_t( collisions ); }
    LifoSpec spec() const { return LifoSpec(); }
};

#if FAMILY == 3
template <class D, bool HasStat = false>
struct DequeAdapter
{
    SCfg cfg; std::unique_ptr<D> d;
    explicit DequeAdapter( SCfg c ): cfg( c ) {}
    static const char* property() { return "C10"; }
    void setup() { attach(); d.reset( cfg.collision ? new D( 1024, unsigned( cfg.collision )) : new D ); }    // collision field reused: combine pass count
    void teardown() { d.reset(); detach(); }
    void thread_begin( int ) { attach(); }
    void thread_end( int ) { thread_exit_hook( *d ); detach(); }
    void apply( int t, History& h, POp const& op )
    {
        switch ( op.op ) {
        case PUSH_F: { int i = h.call( t, PUSH_F, op.a ); Payload pl( op.a ); bool ok = (( op.a + cfg.flip ) & 1 ) ? d->push_front( pl ) : d->push_front( std::move( pl )); h.ret( i, ok ); break; }
        case PUSH_B: { int i = h.call( t, PUSH_B, op.a ); Payload pl( op.a ); bool ok = (( op.a + cfg.flip ) & 1 ) ? d->push_back( pl ) : d->push_back( std::move( pl )); h.ret( i, ok ); break; }
        case POP_F: { int i = h.call( t, POP_F ); Payload v; bool ok = d->pop_front( v ); h.ret( i, ok, ok ? v.read() : 0 ); break; }
        case POP_B: { int i = h.call( t, POP_B ); Payload v; bool ok = d->pop_back( v ); h.ret( i, ok, ok ? v.read() : 0 ); break; }
        case EMPTY: { int i = h.call( t, EMPTY ); h.ret( i, d->empty() ? 1 : 0 ); break; }
        case SIZE: { int i = h.call( t, SIZE ); h.ret( i, long( d->size())); break; }
        case CLEAR: { int i = h.call( t, CLEAR ); d->clear(); h.ret( i, 1 ); break; }
        default: break;
        }
    }
    void drain( History& h )
    {
        { int i = h.call( -1, SIZE ); h.ret( i, long( d->size())); }
        for ( int n = 0; n < 64; ++n ) { int i = h.call( -1, POP_F ); Payload v; bool ok = d->pop_front( v ); h.ret( i, ok, ok ? v.read() : 0 ); if ( !ok ) break; }
        int i = h.call( -1, EMPTY ); h.ret( i, d->empty());
    }
    long collisions = 0;
    void quiescent( Result&, History const& ) { collisions = collisions_of( *d, std::integral_constant<bool, HasStat>()); }
    void post_check( Result& r, History const& ) { r.aux[1] = uint64_t( collisions ); }
    DequeSpec spec() const { return DequeSpec(); }
};
#endif

#if FAMILY == 4
struct is_disposer { template <class T> void operator()( T* p ) const { ++p->disposed; } };
struct its: public cds::intrusive::treiber_stack::traits { typedef cds::intrusive::treiber_stack::base_hook< cds::opt::gc<cds::gc::HP> > hook; typedef is_disposer disposer; typedef cds::atomicity::item_counter item_counter; };
struct its_el: public its { static constexpr const bool enable_elimination = true; typedef cds::opt::v::initialized_static_buffer<int, 1> buffer; typedef engine_zero random_engine; typedef short_delay elimination_backoff; };
// ---- intrusive stacks: the harness owns the items ----------------------------------------------------------------------------
// TreiberStack never calls the disposer for popped items (the caller owns them; only clear() disposes), so the lifetime rule here
// is the caller's: an item is never reused. What is checked besides LIFO: a popped item is one that was pushed and is handed out once.
struct ISArena {
    struct Ent { void* p; long v; void (*del)( void* ); };
    std::vector<Ent> all;
    void reset() { cds_verif::regions_reset(); for ( auto& e : all ) e.del( e.p ); all.clear(); }
    static ISArena& get() { static ISArena a; return a; }
};
template <class Hook> struct SItem: Hook { long v; int disposed = 0; int popped = 0; explicit SItem( long x ): v( x ) {} };

template <class S, class Smr, bool FC = false>
struct IStackAdapter
{
    typedef typename S::value_type item;
    SCfg cfg; std::unique_ptr<Smr> smr; std::unique_ptr<S> s;
    explicit IStackAdapter( SCfg c ): cfg( c ) {}
    static const char* property() { return vh::property() == "C20" ? "C20" : "C09"; }
    void setup() { ISArena::get().reset(); smr.reset( new Smr( cfg.nthreads + 1 )); attach(); s.reset( new S ); }
    void teardown() { s.reset(); detach(); smr.reset(); }
    void thread_begin( int ) { attach(); }
    void thread_end( int ) { exit_hook( std::integral_constant<bool, FC>()); detach(); }
    void exit_hook( std::true_type ) { s->m_FlatCombining.m_pThreadRec.reset(); }
    void exit_hook( std::false_type ) {}
    std::string q_err;
    item* pop1() { item* p = s->pop(); if ( p && ++p->popped > 1 ) q_err = "pop() returned the item with value " + std::to_string( p->v ) + " a second time"; return p; }
    void apply( int t, History& h, POp const& op )
    {
        switch ( op.op ) {
        case PUSH: {
            int i = h.call( t, PUSH, op.a );
            item* p = new item( op.a );
            ISArena::get().all.push_back( ISArena::Ent{ p, op.a, []( void* x ) { delete static_cast<item*>( x ); } } );
            bool ok = s->push( *p ); h.ret( i, ok ); break;
        }
        case POP: { int i = h.call( t, POP ); item* p = pop1(); h.ret( i, p != nullptr, p ? p->v : 0 ); break; }
        case EMPTY: { int i = h.call( t, EMPTY ); h.ret( i, s->empty() ? 1 : 0 ); break; }
        case CLEAR: { int i = h.call( t, CLEAR ); s->clear(); h.ret( i, 1 ); break; }
        default: break;
        }
    }
    void drain( History& h )
    {
        for ( int n = 0; n < 64; ++n ) { int i = h.call( -1, POP ); item* p = pop1(); h.ret( i, p != nullptr, p ? p->v : 0 ); if ( !p ) break; }
        int i = h.call( -1, EMPTY ); h.ret( i, s->empty());
    }
    void quiescent( Result&, History const& ) {}
    void post_check( Result& r, History const& ) { if ( !q_err.empty()) r.fail( "C09:popped-twice", q_err ); }
    LifoSpec spec() const { return LifoSpec(); }
};
#endif

std::vector<Scenario> g_scen;

template <class Adapter>
void add_stack_family( std::string base, int collision, int step, int bq = 2, int bt = 3, int bq3 = 2, int bt3 = 2, int bqe = 2, int bte = 3, int flip = 0 )
{
    if ( flip ) base += "/flip";
    if ( vh::property() == "C20" ) {
        std::vector<POp> a = { { PUSH, 1, 0 }, { PUSH, 2, 0 }, { POP, 0, 0 }, { EMPTY, 0, 0 }, { CLEAR, 0, 0 } };
        add_seq_generic<Adapter, SCfg>( g_scen, base, SCfg{ 1, collision, flip }, a, { TProg(), { { PUSH, 7, 0 }, { PUSH, 8, 0 }, { PUSH, 9, 0 } } }, 5, 7 );
        return;
    }
    std::vector<POp> alpha = { { PUSH, 0, 0 }, { POP, 0, 0 } };
    std::vector<TProg> seqs = sequences( alpha, 2 );
    std::vector<TProg> prefixes = { {}, { { PUSH, 91, 0 } }, { { PUSH, 91, 0 }, { PUSH, 92, 0 } } };
    std::vector<Program> progs = two_thread_programs( seqs, prefixes, "g" );
    for ( auto& p : progs ) { long v = 1; for ( auto& t : p.threads ) for ( auto& o : t ) if ( o.op == PUSH ) o.a = v++; }
    int n = 0;
    for ( auto const& p : progs )
        g_scen.push_back( make_scenario<Adapter>( base, p, SCfg{ 2, collision, flip }, ( n++ % step ) == 0 ? 0 : 1, bq, bt ));
    std::vector<Program> cur;
    { Program p; p.name = "push-push-pop"; p.threads = { { { PUSH, 1, 0 } }, { { PUSH, 2, 0 } }, { { POP, 0, 0 }, { POP, 0, 0 } } }; cur.push_back( p ); }
    { Program p; p.name = "pop-pop-on-2"; p.prefix = { { PUSH, 91, 0 }, { PUSH, 92, 0 } }; p.threads = { { { POP, 0, 0 } }, { { POP, 0, 0 } }, { { PUSH, 1, 0 } } }; cur.push_back( p ); }
    // the classic ABA program: one popper is preempted while another pops two items and pushes the first one back
    { Program p; p.name = "aba"; p.prefix = { { PUSH, 91, 0 }, { PUSH, 92, 0 }, { PUSH, 93, 0 } }; p.threads = { { { POP, 0, 0 } }, { { POP, 0, 0 }, { POP, 0, 0 }, { PUSH, 1, 0 } } };
      g_scen.push_back( make_scenario<Adapter>( base, p, SCfg{ 2, collision, flip }, 0, bq, bt )); }
    { Program p; p.name = "aba3"; p.prefix = { { PUSH, 91, 0 }, { PUSH, 92, 0 } }; p.threads = { { { POP, 0, 0 } }, { { POP, 0, 0 }, { PUSH, 1, 0 } }, { { POP, 0, 0 }, { PUSH, 2, 0 } } }; cur.push_back( p ); }
    for ( auto const& p : cur )
        g_scen.push_back( make_scenario<Adapter>( base, p, SCfg{ 3, collision, flip }, step == 1 ? 0 : 1, bq3, bt3 ));
    // elimination needs three threads: a pusher and a popper must both lose a CAS to a third thread before they can meet in the collision array
    { Program p; p.name = "elim-collide"; p.prefix = { { PUSH, 91, 0 } }; p.threads = { { { PUSH, 1, 0 } }, { { POP, 0, 0 } }, { { PUSH, 2, 0 }, { PUSH, 3, 0 } } };
      g_scen.push_back( make_scenario<Adapter>( base, p, SCfg{ 3, collision, flip }, 0, bqe, bte )); }
    { Program p; p.name = "elim-collide2"; p.prefix = { { PUSH, 91, 0 }, { PUSH, 92, 0 } }; p.threads = { { { POP, 0, 0 } }, { { PUSH, 1, 0 } }, { { POP, 0, 0 }, { PUSH, 2, 0 } } };
      g_scen.push_back( make_scenario<Adapter>( base, p, SCfg{ 3, collision, flip }, 0, bqe, bte )); }
    { Program p; p.name = "deep"; p.threads = { { { PUSH, 1, 0 }, { POP, 0, 0 }, { PUSH, 2, 0 } }, { { POP, 0, 0 }, { PUSH, 3, 0 }, { POP, 0, 0 } } };
      g_scen.push_back( make_scenario<Adapter>( base, p, SCfg{ 2, collision, flip }, 1, bq, bt )); }
}

#if FAMILY == 3
template <class Adapter>
void add_deque_family( std::string base, int passes, int step, int bq, int bt, int flip = 0 )
{
    if ( flip ) base += "/flip";
    if ( vh::property() == "C20" ) {
        std::vector<POp> a = { { PUSH_F, 1, 0 }, { PUSH_F, 2, 0 }, { PUSH_B, 3, 0 }, { PUSH_B, 4, 0 }, { POP_F, 0, 0 }, { POP_B, 0, 0 }, { EMPTY, 0, 0 }, { SIZE, 0, 0 }, { CLEAR, 0, 0 } };
        add_seq_generic<Adapter, SCfg>( g_scen, base, SCfg{ 1, passes, flip }, a, { TProg(), { { PUSH_B, 7, 0 }, { PUSH_B, 8, 0 }, { PUSH_F, 9, 0 } } }, 4, 5 );
        return;
    }
    std::vector<POp> alpha = { { PUSH_F, 0, 0 }, { PUSH_B, 0, 0 }, { POP_F, 0, 0 }, { POP_B, 0, 0 } };
    std::vector<TProg> seqs = sequences( alpha, 1 );
    { std::vector<TProg> two = { { { PUSH_F, 0, 0 }, { POP_B, 0, 0 } }, { { PUSH_B, 0, 0 }, { POP_F, 0, 0 } }, { { POP_F, 0, 0 }, { PUSH_B, 0, 0 } }, { { POP_B, 0, 0 }, { POP_F, 0, 0 } }, { { PUSH_F, 0, 0 }, { PUSH_B, 0, 0 } } };
      seqs.insert( seqs.end(), two.begin(), two.end()); }
    std::vector<TProg> prefixes = { {}, { { PUSH_B, 91, 0 } }, { { PUSH_B, 91, 0 }, { PUSH_B, 92, 0 } } };
    std::vector<Program> progs = two_thread_programs( seqs, prefixes, "g" );
    for ( auto& p : progs ) { long v = 1; for ( auto& t : p.threads ) for ( auto& o : t ) if ( o.op == PUSH_F || o.op == PUSH_B ) o.a = v++; }
    int n = 0;
    for ( auto const& p : progs )
        g_scen.push_back( make_scenario<Adapter>( base, p, SCfg{ 2, passes, flip }, ( n++ % step ) == 0 ? 0 : 1, bq, bt ));
    // 3 threads: a same-end pair plus a cross-end pop, on [] and [x]
    for ( int pre = 0; pre < 2; ++pre ) {
        Program p; p.name = "3t-cross" + std::to_string( pre ); if ( pre ) p.prefix = { { PUSH_B, 91, 0 } };
        p.threads = { { { PUSH_F, 1, 0 } }, { { POP_F, 0, 0 } }, { { POP_B, 0, 0 } } };
        g_scen.push_back( make_scenario<Adapter>( base, p, SCfg{ 3, passes, flip }, step == 1 ? 0 : 1, 1, 2 ));
        Program q; q.name = "3t-cross-b" + std::to_string( pre ); if ( pre ) q.prefix = { { PUSH_B, 91, 0 } };
        q.threads = { { { PUSH_B, 1, 0 } }, { { POP_B, 0, 0 } }, { { POP_F, 0, 0 } } };
        g_scen.push_back( make_scenario<Adapter>( base, q, SCfg{ 3, passes, flip }, step == 1 ? 0 : 1, 1, 2 ));
    }
}
#endif

#if FAMILY == 1 || FAMILY == 2
struct tr_plain: public cc::treiber_stack::traits { typedef cds::atomicity::item_counter item_counter; };
struct tr_elim1: public cc::treiber_stack::traits {
    static constexpr const bool enable_elimination = true;
    typedef cds::opt::v::initialized_static_buffer<int, 1> buffer;
    typedef engine_zero random_engine; typedef short_delay elimination_backoff; typedef cc::treiber_stack::stat<> stat;
};
struct tr_elim2: public cc::treiber_stack::traits {
    static constexpr const bool enable_elimination = true;
    typedef cds::opt::v::initialized_static_buffer<int, 2> buffer;
    typedef engine_alt random_engine; typedef short_delay elimination_backoff; typedef cds_verif::mutex lock_type; typedef cc::treiber_stack::stat<> stat;
};
struct tr_elim_dyn: public cc::treiber_stack::traits {
    static constexpr const bool enable_elimination = true;
    typedef cds::opt::v::initialized_dynamic_buffer<int> buffer;
    typedef engine_zero random_engine;      // default elimination back-off (delay<>: 3 polls) and spin lock as shipped
    typedef cc::treiber_stack::stat<> stat;
};
#endif
#if FAMILY == 3
struct fcs_el: public cc::fcstack::traits { static constexpr const bool enable_elimination = true; typedef cc::fcstack::stat<> stat; };
struct fcs_mtx: public cc::fcstack::traits { typedef cds_verif::mutex lock_type; };
struct fcd_el: public cc::fcdeque::traits { static constexpr const bool enable_elimination = true; typedef cc::fcdeque::stat<> stat; };
struct fcd_mtx: public cc::fcdeque::traits { typedef cds_verif::mutex lock_type; static constexpr const bool enable_elimination = true; };
#endif

} // namespace

int main( int argc, char** argv )
{
#if FAMILY == 3
    vh::take_property( argc, argv, "C09" );
#else
    vh::take_property( argc, argv, "C09" );
#endif
    cds::Initialize();

#if FAMILY == 1
    {
        typedef cc::TreiberStack<cds::gc::HP, Payload, tr_plain> ts_hp;
        typedef cc::TreiberStack<cds::gc::DHP, Payload, tr_plain> ts_dhp;
        add_stack_family<StackAdapter<ts_hp, HpHolder<ts_hp::c_nHazardPtrCount + 1>>>( "Treiber/HP", 0, 1, 3, 4, 2, 3 );
        add_stack_family<StackAdapter<ts_dhp, DhpHolder>>( "Treiber/DHP", 0, 2, 3, 4, 2, 3, 2, 3, 1 );
        add_stack_family<StackAdapter<ts_hp, HpHolder<ts_hp::c_nHazardPtrCount + 1, true>>>( "Treiber/HPclassic", 0, 3, 3, 4, 2, 3 );
    }
#elif FAMILY == 2
    {
        typedef cc::TreiberStack<cds::gc::HP, Payload, tr_elim1> ts_e1;
        typedef cc::TreiberStack<cds::gc::DHP, Payload, tr_elim2> ts_e2;
        typedef cc::TreiberStack<cds::gc::HP, Payload, tr_elim_dyn> ts_ed;
        add_stack_family<StackAdapter<ts_e1, HpHolder<ts_e1::c_nHazardPtrCount + 1>, false, true>>( "Treiber-elim1/HP", 0, 1, 2, 3, 1, 2 );
        add_stack_family<StackAdapter<ts_e2, DhpHolder, false, true>>( "Treiber-elim2-mutex/DHP", 0, 3, 2, 3, 1, 2, 2, 3, 1 );
        add_stack_family<StackAdapter<ts_ed, HpHolder<ts_ed::c_nHazardPtrCount + 1>, true, true>>( "Treiber-elim-dyn1/HP", 1, 3, 2, 3, 1, 2 );
    }
#elif FAMILY == 4
    {
        namespace ci = cds::intrusive;
        typedef SItem< ci::treiber_stack::node<cds::gc::HP> > ts_item;
        typedef ci::TreiberStack<cds::gc::HP, ts_item, its> its_hp;
        typedef ci::TreiberStack<cds::gc::HP, ts_item, its_el> its_hp_el;
        typedef SItem< ci::treiber_stack::node<cds::gc::DHP> > ts_item_d;
        struct itsd: public ci::treiber_stack::traits { typedef ci::treiber_stack::base_hook< cds::opt::gc<cds::gc::DHP> > hook; typedef is_disposer disposer; };
        typedef ci::TreiberStack<cds::gc::DHP, ts_item_d, itsd> its_dhp;
        typedef SItem< boost::intrusive::slist_base_hook<> > fc_item;
        struct ifcs_tr: public ci::fcstack::traits { typedef is_disposer disposer; };
        typedef ci::FCStack<fc_item, boost::intrusive::slist<fc_item>, ifcs_tr> ifcs;
        add_stack_family<IStackAdapter<its_hp, HpHolder<its_hp::c_nHazardPtrCount + 1>>>( "intrusive-Treiber/HP", 0, 2, 3, 4, 2, 3 );
        add_stack_family<IStackAdapter<its_dhp, DhpHolder>>( "intrusive-Treiber/DHP", 0, 3, 3, 4, 2, 3 );
        add_stack_family<IStackAdapter<its_hp_el, HpHolder<its_hp_el::c_nHazardPtrCount + 1>>>( "intrusive-Treiber-elim1/HP", 0, 2, 2, 3, 1, 2 );
        add_stack_family<IStackAdapter<ifcs, NoSmr, true>>( "intrusive-FCStack", 0, 1, 1, 2, 1, 1, 1, 2 );
    }
#elif FAMILY == 3
    if ( vh::wants( "C09" )) {
        typedef cc::FCStack<Payload> fcs;
        typedef cc::FCStack<Payload, std::stack<Payload>, fcs_el> fcs_e;
        typedef cc::FCStack<Payload, std::stack<Payload, std::vector<Payload>>, fcs_mtx> fcs_vm;
        add_stack_family<StackAdapter<fcs, NoSmr>>( "FCStack", 0, 1, 1, 2, 1, 1, 1, 2 );
        add_stack_family<StackAdapter<fcs, NoSmr>>( "FCStack", 0, 2, 1, 2, 1, 1, 1, 2, 1 );
        add_stack_family<StackAdapter<fcs_e, NoSmr, false, true>>( "FCStack-elimination", 0, 1, 1, 2, 1, 1, 1, 2 );
        add_stack_family<StackAdapter<fcs_e, NoSmr, false, true>>( "FCStack-elimination", 0, 1, 1, 2, 1, 1, 1, 2, 1 );
        add_stack_family<StackAdapter<fcs_vm, NoSmr>>( "FCStack-vector-mutex", 0, 2, 1, 2, 1, 1, 1, 1 );
    }
    else {
        typedef cc::FCDeque<Payload> fcd;
        typedef cc::FCDeque<Payload, std::deque<Payload>, fcd_el> fcd_e;
        typedef cc::FCDeque<Payload, boost::container::deque<Payload>, fcd_mtx> fcd_bm;
        add_deque_family<DequeAdapter<fcd>>( "FCDeque", 0, 1, 1, 2 );
        add_deque_family<DequeAdapter<fcd_e, true>>( "FCDeque-elimination", 0, 1, 1, 2 );
        add_deque_family<DequeAdapter<fcd_e, true>>( "FCDeque-elimination", 0, 1, 1, 2, 1 );
        add_deque_family<DequeAdapter<fcd_e, true>>( "FCDeque-elimination-pass1", 1, 4, 1, 2 );
        add_deque_family<DequeAdapter<fcd_e, true>>( "FCDeque-elimination-pass2", 2, 6, 1, 2 );
        add_deque_family<DequeAdapter<fcd_bm>>( "FCDeque-boost-mutex-elim", 0, 4, 1, 2 );
    }
#endif

    Options o; o.property = vh::property().c_str();
    o.default_bound_quick = 2; o.default_bound_thorough = 3;
    return main_run( argc, argv, g_scen, o );
}
