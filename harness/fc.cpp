// C23: the flat-combining kernel executes each request exactly once under mutual exclusion; records of exited threads are
// reclaimed and not touched afterwards (DESIGN.md 9/C23)
#include "common.h"
#include <cds/init.h>
#include <cds/algo/flat_combining.h>
#include <cds/sync/spinlock.h>
#include <cds/threading/model.h>
#include <sstream>
#include <map>
#include <set>

using namespace cdsmc;
namespace fc = cds::algo::flat_combining;

namespace {

// ---- allocator of publication records: a released record stays mapped (quarantine) and is reported to the engine ------------
struct RecLedger {
    std::map<void*, size_t> live;       // allocated, not released
    std::vector<void*> quarantine;
    int allocated = 0, released = 0;
    std::string err;
    void reset() { live.clear(); allocated = released = 0; err.clear(); }
    void drain() { cds_verif::regions_reset(); for ( void* p : quarantine ) ::operator delete( p ); quarantine.clear(); }
};
RecLedger g_led;

template <class T>
struct QAlloc {
    typedef T value_type;
    QAlloc() noexcept {}
    template <class U> QAlloc( QAlloc<U> const& ) noexcept {}
    template <class U> struct rebind { typedef QAlloc<U> other; };
    T* allocate( size_t n )
    {
        T* p = static_cast<T*>( ::operator new( n * sizeof( T )));
        g_led.live[p] = n * sizeof( T ); ++g_led.allocated;
        if ( getenv( "FC_DEBUG" )) fprintf( stderr, "  ## t%d allocates record %p\n", cds_verif::self_id() - 1, (void*) p );
        return p;
    }
    void deallocate( T* p, size_t ) noexcept
    {
        auto it = g_led.live.find( p );
        if ( it == g_led.live.end()) {
            g_led.err = "a publication record is released twice (or was never allocated)";
            if ( cds_verif::active()) cds_verif::fail_sig( "C23:double-free", g_led.err.c_str());
            return;
        }
        if ( getenv( "FC_DEBUG" )) fprintf( stderr, "  ## t%d deletes record %p\n", cds_verif::self_id() - 1, (void*) p );
        cds_verif::region_freed( p, it->second, "publication record deleted by the flat-combining kernel" );
        g_led.live.erase( it ); ++g_led.released;
        g_led.quarantine.push_back( p );
    }
    bool operator==( QAlloc const& ) const { return true; }
    bool operator!=( QAlloc const& ) const { return false; }
};

// ---- oracle state of one execution ------------------------------------------------------------------------------------------
struct Oracle {
    struct Req { int thread; long arg; int executed = 0; long result_at_exec = 0; bool responded = false; };
    std::vector<Req> reqs;
    int inside = 0, inside_thread = -1;         // occupancy of the combiner's critical section
    long value = 0;                             // the "sequential data structure"
    long sum_args = 0;
    std::ostringstream log;
    std::string fail_sig, fail_msg;
    atomics::atomic<int> cs_word{ 0 };          // an instrumented word: a scheduling point inside the critical section

    void fail( const char* sig, std::string const& m )
    {
        if ( cds_verif::active()) cds_verif::fail_sig( sig, m.c_str());
        if ( fail_sig.empty()) { fail_sig = sig; fail_msg = m; }
    }
    void enter( int t )
    {
        if ( inside > 0 ) {
            std::ostringstream m; m << "t" << t << " runs the combiner's critical section (fc_apply / fc_process / invoke_exclusive) while t" << inside_thread << " is inside it";
            fail( "C23:two-combiners", m.str());
        }
        ++inside; inside_thread = t;
    }
    void leave() { --inside; if ( !inside ) inside_thread = -1; }
};

enum { op_add = fc::req_Operation };

struct Rec: public fc::publication_record {
    long arg = 0;
    long result = 0;
    int req_id = -1;
};

template <class Traits>
class FcCounter
{
public:
    typedef fc::kernel<Rec, Traits> kernel_type;
    typedef typename kernel_type::publication_record_type rec_type;
    kernel_type k_;
    Oracle& o_;

    FcCounter( Oracle& o, unsigned compact, unsigned passes ): k_( compact, passes ), o_( o ) {}

    long add( int t, long v, bool batch )
    {
        rec_type* r = k_.acquire_record();
        int id = int( o_.reqs.size());
        o_.reqs.push_back( Oracle::Req{ t, v } );
        o_.sum_args += v;
        cds_verif::hb_access( &r->arg, true, "request written by the requester" );
        r->arg = v; r->req_id = id;
        if ( batch ) k_.batch_combine( op_add, r, *this );
        else k_.combine( op_add, r, *this );
        // the response is visible to the requester now
        Oracle::Req& q = o_.reqs[size_t( id )];
        q.responded = true;
        if ( q.executed == 0 ) o_.fail( "C23:response-before-execution", "combine() returned although the request has not been executed" );
        cds_verif::hb_access( &r->arg, false, "response read by the requester" );
        long res = r->result;
        if ( q.executed == 1 && res != q.result_at_exec ) o_.fail( "C23:wrong-response", "the response read by the requester is not the value produced by the execution of its request" );
        k_.release_record( r );
        o_.log << " t" << t << ":add(" << v << ")=" << res;
        return res;
    }
    long read_exclusive( int t )
    {
        long v = 0;
        k_.invoke_exclusive( [&]() { o_.enter( t ); o_.cs_word.load( atomics::memory_order_relaxed ); v = o_.value; o_.leave(); } );
        o_.log << " t" << t << ":read=" << v;
        return v;
    }
    void thread_exit()
    {
        if ( getenv( "FC_DEBUG" )) fprintf( stderr, "  ## t%d exits, its record is %p\n", cds_verif::self_id() - 1, (void*) k_.m_pThreadRec.get());
        k_.m_pThreadRec.reset();
    }

    void execute( Rec* r )
    {
        int t = cds_verif::self_id() - 1;
        if ( !k_.m_Mutex.is_locked()) o_.fail( "C23:two-combiners", "a request is executed while the kernel's global lock is free" );
        if ( r->req_id < 0 || size_t( r->req_id ) >= o_.reqs.size()) { o_.fail( "C23:phantom-request", "a record with no published request was handed to the container" ); return; }
        Oracle::Req& q = o_.reqs[size_t( r->req_id )];
        if ( q.responded ) o_.fail( "C23:executed-twice", "a request is executed after its requester has already received the response" );
        if ( ++q.executed > 1 ) o_.fail( "C23:executed-twice", "request #" + std::to_string( r->req_id ) + " is executed a second time" );
        cds_verif::hb_access( &r->arg, false, "request read by the combiner" );
        long cur = o_.value;
        o_.cs_word.load( atomics::memory_order_relaxed );      // other threads may be scheduled here
        o_.value = cur + r->arg;
        cds_verif::hb_access( &r->arg, true, "response written by the combiner" );
        r->result = o_.value; q.result_at_exec = o_.value;
        o_.log << " [t" << t << " executes #" << r->req_id << "]";
        if ( getenv( "FC_DEBUG" )) fprintf( stderr, "  ## t%d executes request #%d of record %p\n", t, r->req_id, (void*) r );
    }
    // kernel call-backs
    void fc_apply( rec_type* r )
    {
        o_.enter( cds_verif::self_id() - 1 );
        execute( r );
        o_.leave();
    }
    template <class It>
    void fc_process( It b, It e )
    {
        o_.enter( cds_verif::self_id() - 1 );
        for ( It it = b; it != e; ++it ) { execute( &*it ); k_.operation_done( *it ); }
        o_.leave();
    }
};


enum FOp { F_ADD, F_BADD, F_READ, F_EXIT };
struct Ins { int op; long v; };
typedef std::vector<Ins> Prog;

template <class Traits>
class FcRun: public Run
{
    typedef FcCounter<Traits> counter;
    std::vector<Prog> progs_; unsigned compact_, passes_;
    Oracle o_;
    std::unique_ptr<counter> c_;
    int exits_ = 0;
public:
    FcRun( std::vector<Prog> p, unsigned compact, unsigned passes ): progs_( p ), compact_( compact ), passes_( passes ) {}
    int nthreads() const override { return int( progs_.size()); }
    void setup() override
    {
        cds::threading::Manager::attachThread();
        g_led.drain(); g_led.reset();
        o_.reqs.reserve( 64 );
        c_.reset( new counter( o_, compact_, passes_ ));
    }
    void prologue( int ) override { cds::threading::Manager::attachThread(); }
    void epilogue( int ) override { c_->thread_exit(); cds::threading::Manager::detachThread(); }
    void thread( int t ) override
    {
        for ( auto const& in : progs_[t] ) {
            switch ( in.op ) {
            case F_ADD: c_->add( t, in.v, false ); break;
            case F_BADD: c_->add( t, in.v, true ); break;
            case F_READ: c_->read_exclusive( t ); break;
            case F_EXIT: c_->thread_exit(); ++exits_; o_.log << " t" << t << ":exit"; break;
            }
        }
    }
    void teardown() override
    {
        // all worker threads have exited by now (epilogue): after a few more combining passes with compaction their records must be gone
        for ( int i = 0; i < 4; ++i ) c_->add( -1, 100, i & 1 );
        long v = c_->read_exclusive( -1 );
        if ( v != o_.sum_args ) o_.fail( "C23:lost-update", "the data structure holds " + std::to_string( v ) + " but the requests add up to " + std::to_string( o_.sum_args ) + ": a request was lost or applied twice" );
        for ( auto const& q : o_.reqs ) if ( q.executed != 1 ) o_.fail( "C23:executed-twice", "a request was executed " + std::to_string( q.executed ) + " times" );
        if ( compact_ <= 2 && g_led.live.size() != 1 )
            o_.fail( "C23:not-reclaimed", std::to_string( g_led.live.size() - 1 ) + " publication record(s) of exited threads are still allocated after the list was compacted" );
        c_.reset();
        if ( !g_led.live.empty()) o_.fail( "C23:not-reclaimed", "the destroyed kernel leaves publication records behind" );
        if ( !g_led.err.empty()) o_.fail( "C23:double-free", g_led.err );
        cds::threading::Manager::detachThread();
    }
    void check( Result& r ) override
    {
        r.description = o_.log.str(); r.outcome_hash = hash_str( o_.log.str()); r.nontrivial = true;
        r.aux[0] = uint64_t( g_led.allocated ); r.aux[1] = uint64_t( exits_ );
        if ( !o_.fail_sig.empty()) r.fail( o_.fail_sig, o_.fail_msg );
    }
};

std::vector<Scenario> g_scen;

template <class Traits>
void family( std::string const& name, int bq2, int bt2, int bq3, int bt3, bool full )
{
    auto add = [&]( std::string id, std::vector<Prog> p, unsigned cf, unsigned passes, int bq, int bt ) {
        Scenario s; s.id = name + "-cf" + std::to_string( cf ) + "p" + std::to_string( passes ) + "/" + id;
        s.make = [p, cf, passes]() { return std::unique_ptr<Run>( new FcRun<Traits>( p, cf, passes )); };
        s.bound_quick = bq; s.bound_thorough = bt; g_scen.push_back( s );
    };
    Prog a = { { F_ADD, 1 } }, aa = { { F_ADD, 1 }, { F_ADD, 2 } }, b = { { F_BADD, 4 } }, ab = { { F_ADD, 1 }, { F_BADD, 4 } };
    Prog r = { { F_READ, 0 } }, ar = { { F_ADD, 1 }, { F_READ, 0 } };
    Prog ax = { { F_ADD, 1 }, { F_EXIT, 0 } }, axa = { { F_ADD, 1 }, { F_EXIT, 0 }, { F_ADD, 2 } }, bxb = { { F_BADD, 4 }, { F_EXIT, 0 }, { F_BADD, 8 } };
    Prog aaa = { { F_ADD, 1 }, { F_ADD, 2 }, { F_ADD, 3 } };
    std::vector<std::pair<std::string, Prog>> ps = { { "a", a }, { "aa", aa }, { "b", b }, { "ab", ab }, { "r", r }, { "ar", ar }, { "ax", ax }, { "axa", axa }, { "bxb", bxb }, { "aaa", aaa } };
    std::vector<std::pair<unsigned, unsigned>> cfgs = { { 1, 1 }, { 2, 1 }, { 1, 2 } };
    if ( !full ) { ps = { { "a", a }, { "ab", ab }, { "ar", ar }, { "axa", axa } }; cfgs = { { 1, 1 }, { 2, 1 } }; }
    for ( auto const& cfg : cfgs ) {
        for ( size_t i = 0; i < ps.size(); ++i ) for ( size_t j = i; j < ps.size(); ++j )
            add( ps[i].first + "|" + ps[j].first, { ps[i].second, ps[j].second }, cfg.first, cfg.second, bq2, bt2 );
        // three threads: one exits (its record is compacted and deleted by a combiner) while another walks the publication list
        add( "3t-ax|aa|aa", { ax, aa, aa }, cfg.first, cfg.second, bq3, bt3 );
        add( "3t-axa|a|ar", { axa, a, ar }, cfg.first, cfg.second, bq3, bt3 );
        add( "3t-ax|ax|aaa", { ax, ax, aaa }, cfg.first, cfg.second, bq3, bt3 );
        add( "3t-bxb|b|r", { bxb, b, r }, cfg.first, cfg.second, bq3, bt3 );
    }
}

template <class Lock, class Wait>
struct tr: public fc::traits { typedef Lock lock_type; typedef Wait wait_strategy; typedef QAlloc<int> allocator; };

} // namespace

#ifndef FAMILY
#   define FAMILY 1
#endif

int main( int argc, char** argv )
{
    vh::take_property( argc, argv, "C23" );
    cds::Initialize();
    namespace ws = fc::wait_strategy;
#if FAMILY == 1
    family< tr<cds::sync::spin, ws::backoff<>> >( "spin-backoff", 2, 3, 1, 2, true );
    family< tr<cds::sync::spin, ws::empty> >( "spin-empty", 2, 3, 1, 2, false );
#elif FAMILY == 2
    family< tr<cds::sync::spin, ws::single_mutex_single_condvar<>> >( "spin-smsc", 2, 3, 1, 2, true );
    family< tr<cds::sync::spin, ws::single_mutex_multi_condvar<>> >( "spin-smmc", 2, 3, 1, 2, false );
#elif FAMILY == 3
    family< tr<cds::sync::spin, ws::multi_mutex_multi_condvar<>> >( "spin-mmmc", 2, 3, 1, 2, true );
#endif
    Options o; o.property = vh::property().c_str();
    o.default_bound_quick = 2; o.default_bound_thorough = 3;
    return main_run( argc, argv, g_scen, o );
}
