// C13: ordered lists are linearizable sets and maps (DESIGN.md 9/C13); C18 post-conditions at every quiescent point.
#include "sets.h"
#include "seq.h"

#ifndef FAMILY
#   define FAMILY 1
#endif

#if FAMILY == 1
#   include <cds/container/michael_list_hp.h>
#   include <cds/container/michael_list_dhp.h>
#elif FAMILY == 2
#   include <cds/container/lazy_list_hp.h>
#   include <cds/container/lazy_list_dhp.h>
#elif FAMILY == 3
#   include <cds/container/iterable_list_hp.h>
#   include <cds/container/iterable_list_dhp.h>
#elif FAMILY == 4
#   include <cds/container/michael_list_rcu.h>
#   include <cds/container/lazy_list_rcu.h>
#elif FAMILY == 5
#   include <cds/container/michael_list_nogc.h>
#   include <cds/container/lazy_list_nogc.h>
#elif FAMILY == 6
#   include "intrusive.h"
#   include <cds/intrusive/michael_list_hp.h>
#   include <cds/intrusive/lazy_list_dhp.h>
#   include <cds/intrusive/iterable_list_hp.h>
#elif FAMILY == 7
#   include "intrusive.h"
#   include <cds/intrusive/michael_list_rcu.h>
#   include <cds/intrusive/lazy_list_rcu.h>
#endif

using namespace vh;
using namespace cdsmc;
namespace cc = cds::container;
namespace ci = cds::intrusive;

namespace {

const char* prop() { return vh::property() == "C18" ? "C18" : vh::property() == "C19" ? "C19" : vh::property() == "C20" ? "C20" : "C13"; }

std::vector<Scenario> g_scen;

template <class Set, class Smr, class Caps>
void family( std::string const& tname, int step, int bq = 2, int bt = 3 )
{
    typedef SetAdapter<Set, Smr, Caps, prop> A;
    std::string base = tname + "/" + Smr::name();
    if ( vh::property() == "C20" ) {
        TProg full = { { INS, 1, 0 }, { INS, 2, 0 }, { INS, 3, 0 } };
        add_seq_scenarios<A, Caps>( g_scen, base, { 1, 2, 3 }, { 0, 1, 2, 3, 4 }, { TProg(), full }, 3, 4 );
        return;
    }
    // an insert that has chosen an emptied node as its place is overtaken by erase / insert / insert / erase of its neighbours, which
    // leave that node empty again but with a larger key in front of it (ABA on a reused node; IterableList re-walks for that reason)
    auto aba = [&]( bool with_iter ) {
        Program p; p.name = "aba-empty-node-reuse";
        p.prefix = { { INS, 5, 0 }, { INS, 9, 0 }, { INS, 20, 0 }, { DEL, 9, 0 } };
        TProg t1 = { { INS, 10, 0 }, { HAS, 10, 0 } }; if ( with_iter ) t1.push_back( POp{ ITER, 0, 0 } );
        p.threads = { t1, { { DEL, 5, 0 }, { INS, 15, 0 }, { INS, 12, 0 }, { DEL, 15, 0 } } };
        g_scen.push_back( make_scenario<A>( base, p, SetCfg( 2, std::vector<int>{ 0, 5, 9, 10, 12, 15, 20 } ), 0, 1, 2 ));
    };
    // the same hazard with two emptied nodes in front of a key: the new key must not be stored behind a larger one
    auto aba2 = [&]( bool with_iter ) {
        Program p; p.name = "aba-two-empty-nodes";
        p.prefix = { { INS, 7, 0 }, { INS, 8, 0 }, { INS, 10, 0 }, { DEL, 7, 0 }, { DEL, 8, 0 } };
        TProg t1 = { { INS, 5, 0 }, { HAS, 5, 0 } }; if ( with_iter ) t1.push_back( POp{ ITER, 0, 0 } );
        p.threads = { t1, { { INS_F, 7, 71 }, { INS, 6, 0 }, { DEL, 7, 0 } } };
        g_scen.push_back( make_scenario<A>( base, p, SetCfg( 2, std::vector<int>{ 0, 5, 6, 7, 8, 10 } ), 0, 1, 2 ));
    };
    if ( vh::property() == "C19" ) {
        if ( Caps::safe_iter::value ) {
            add_iter_programs<A, Caps>( g_scen, base, { 0, 2, 4, 6, 5 }, { 0, 1, 2, 3, 4, 5, 6, 7 }, bq, bt );     // the new key 5 goes between 4 and 6
            aba( true ); aba2( true );
        }
        return;
    }
    bool del = Caps::has_erase::value;
    std::vector<int> ops = del ? std::vector<int>{ INS, DEL, HAS } : std::vector<int>{ INS, HAS, FIND_F };
    add_set_programs<A>( g_scen, base, set_grammar( ops, { 1, 2 }, 2, "g" ), 2, 3, step, bq, bt );
    std::vector<Program> cur = set_curated( del, Caps::has_extract::value );
    for ( auto const& p : cur ) {
        bool supported = true;
        for ( auto const& t : p.threads ) for ( auto const& o : t ) if (( o.op == UPD_INS || o.op == UPD_NOINS ) && !Caps::has_update::value ) supported = false;
        if ( !supported ) continue;
        g_scen.push_back( make_scenario<A>( base, p, SetCfg( int( p.threads.size()), 3 ), step <= 6 ? 0 : 1, p.threads.size() > 2 ? 2 : bq, p.threads.size() > 2 ? 2 : bt ));
    }
    if ( Caps::has_unlink::value )
        add_unlink_programs<A>( g_scen, base, { 0, 1, 2, 3 }, std::vector<int>(), step, bq, bt );
    if ( del ) { aba( false ); if ( Caps::has_ins_f::value ) aba2( false ); }
}

#if FAMILY == 1
struct tr_less: public cc::michael_list::traits { typedef item_less less; typedef cds::atomicity::item_counter item_counter; };
struct tr_cmp: public cc::michael_list::traits { typedef item_cmp compare; typedef cds::atomicity::item_counter item_counter; typedef cds::opt::v::sequential_consistent memory_model; };
#elif FAMILY == 2
struct tr_less: public cc::lazy_list::traits { typedef item_less less; typedef cds::atomicity::item_counter item_counter; };
struct tr_cmp: public cc::lazy_list::traits { typedef item_cmp compare; typedef cds::atomicity::item_counter item_counter; };
#elif FAMILY == 3
struct caps_iter: caps_hp { typedef std::true_type update_replaces; typedef std::true_type safe_iter; typedef std::true_type has_erase_at; };
struct tr_less: public cc::iterable_list::traits { typedef item_less less; typedef cds::atomicity::item_counter item_counter; };
struct tr_cmp: public cc::iterable_list::traits { typedef item_cmp compare; typedef cds::atomicity::item_counter item_counter; };
#elif FAMILY == 4
struct trm: public cc::michael_list::traits { typedef item_less less; typedef cds::atomicity::item_counter item_counter; };
struct trl: public cc::lazy_list::traits { typedef item_cmp compare; typedef cds::atomicity::item_counter item_counter; };
#elif FAMILY == 5
struct trm: public cc::michael_list::traits { typedef item_less less; typedef cds::atomicity::item_counter item_counter; };
struct trl: public cc::lazy_list::traits { typedef item_cmp compare; typedef cds::atomicity::item_counter item_counter; };
struct caps_nogc_list: caps_nogc { typedef std::false_type has_update; typedef std::false_type has_ins_f; typedef std::false_type has_find_f; typedef std::false_type has_emplace; };
#elif FAMILY == 6 || FAMILY == 7
typedef node_disposer<prop> disp;
struct caps_i: caps_hp { typedef std::true_type has_unlink; typedef std::false_type has_emplace; };
struct caps_i_iter: caps_i { typedef std::true_type update_replaces; typedef std::true_type safe_iter; typedef std::true_type has_erase_at; };
struct caps_i_rcu: caps_rcu { typedef std::true_type has_unlink; typedef std::false_type has_emplace; };
#endif

} // namespace

// nogc lists: insert() returns an iterator, contains() returns an iterator: wrap them into the uniform boolean API
#if FAMILY == 5
namespace {
template <class L>
struct NogcWrap {
    L l;
    typedef typename L::iterator iterator;
    bool insert( Item const& v ) { return l.insert( v ) != l.end(); }
    bool contains( int k ) { return l.contains( k ) != l.end(); }
    iterator begin() { return l.begin(); }
    iterator end() { return l.end(); }
    size_t size() const { return l.size(); }
    bool empty() const { return l.empty(); }
    void clear() { l.clear(); }
};
}
#endif

int main( int argc, char** argv )
{
    vh::take_property( argc, argv, "C13" );
    cds::Initialize();

#if FAMILY == 1
    typedef cc::MichaelList<cds::gc::HP, Item, tr_less> ml_hp;
    typedef cc::MichaelList<cds::gc::DHP, Item, tr_cmp> ml_dhp;
    family<ml_hp, HpHolder<ml_hp::c_nHazardPtrCount + 2>, caps_hp>( "MichaelList", 3 );
    family<ml_dhp, DhpHolder, caps_hp>( "MichaelList-cmp-seqcst", 12 );
#elif FAMILY == 2
    typedef cc::LazyList<cds::gc::HP, Item, tr_less> ll_hp;
    typedef cc::LazyList<cds::gc::DHP, Item, tr_cmp> ll_dhp;
    family<ll_hp, HpHolder<ll_hp::c_nHazardPtrCount + 2>, caps_hp>( "LazyList", 4 );
    family<ll_dhp, DhpHolder, caps_hp>( "LazyList-cmp", 16 );
#elif FAMILY == 3
    typedef cc::IterableList<cds::gc::HP, Item, tr_less> il_hp;
    typedef cc::IterableList<cds::gc::DHP, Item, tr_cmp> il_dhp;
    family<il_hp, HpHolder<il_hp::c_nHazardPtrCount + 2>, caps_iter>( "IterableList", 4 );
    family<il_dhp, DhpHolder, caps_iter>( "IterableList-cmp", 16 );
#elif FAMILY == 4
    typedef cc::MichaelList<rcu_gpb, Item, trm> ml_rcu;
    typedef cc::LazyList<rcu_gpb, Item, trl> ll_rcu;
    typedef cc::MichaelList<rcu_gpi, Item, trm> ml_gpi;
    family<ml_rcu, GpbHolder, caps_rcu>( "MichaelList", 5 );
    family<ll_rcu, GpbHolder, caps_rcu>( "LazyList-cmp", 6 );
    family<ml_gpi, GpiHolder, caps_rcu>( "MichaelList", 16 );
#elif FAMILY == 5
    typedef NogcWrap< cc::MichaelList<cds::gc::nogc, Item, trm> > ml_nogc;
    typedef NogcWrap< cc::LazyList<cds::gc::nogc, Item, trl> > ll_nogc;
    family<ml_nogc, NoSmr, caps_nogc_list>( "MichaelList-nogc", 1 );
    family<ll_nogc, NoSmr, caps_nogc_list>( "LazyList-nogc", 2 );
#elif FAMILY == 6
    typedef INode< ci::michael_list::node<cds::gc::HP> > mnode;
    struct mtr: public ci::michael_list::traits { typedef ci::michael_list::base_hook< cds::opt::gc<cds::gc::HP> > hook; typedef disp disposer; typedef item_less less; typedef cds::atomicity::item_counter item_counter; };
    typedef IWrap< ci::MichaelList<cds::gc::HP, mnode, mtr> > iml_hp;
    typedef INode< ci::lazy_list::node<cds::gc::DHP> > lnode;
    struct ltr: public ci::lazy_list::traits { typedef ci::lazy_list::base_hook< cds::opt::gc<cds::gc::DHP> > hook; typedef disp disposer; typedef item_cmp compare; typedef cds::atomicity::item_counter item_counter; };
    typedef IWrap< ci::LazyList<cds::gc::DHP, lnode, ltr> > ill_dhp;
    typedef INode< no_hook > inode;
    struct itr: public ci::iterable_list::traits { typedef disp disposer; typedef item_less less; typedef cds::atomicity::item_counter item_counter; };
    typedef IWrap< ci::IterableList<cds::gc::HP, inode, itr>, true > iil_hp;
    family<iml_hp, HpHolder<6>, caps_i>( "intrusive-MichaelList", 3 );
    family<ill_dhp, DhpHolder, caps_i>( "intrusive-LazyList-cmp", 6 );
    family<iil_hp, HpHolder<8>, caps_i_iter>( "intrusive-IterableList", 6 );
#elif FAMILY == 7
    typedef INode< ci::michael_list::node<rcu_gpb> > mnode;
    struct mtr: public ci::michael_list::traits { typedef ci::michael_list::base_hook< cds::opt::gc<rcu_gpb> > hook; typedef disp disposer; typedef item_less less; typedef cds::atomicity::item_counter item_counter; };
    typedef IWrap< ci::MichaelList<rcu_gpb, mnode, mtr> > iml_rcu;
    typedef INode< ci::lazy_list::node<rcu_gpb> > lnode;
    struct ltr: public ci::lazy_list::traits { typedef ci::lazy_list::base_hook< cds::opt::gc<rcu_gpb> > hook; typedef disp disposer; typedef item_cmp compare; typedef cds::atomicity::item_counter item_counter; };
    typedef IWrap< ci::LazyList<rcu_gpb, lnode, ltr> > ill_rcu;
    family<iml_rcu, GpbHolder, caps_i_rcu>( "intrusive-MichaelList", 5 );
    family<ill_rcu, GpbHolder, caps_i_rcu>( "intrusive-LazyList-cmp", 6 );
#endif

    Options o; o.property = vh::property().c_str();
    o.default_bound_quick = 2; o.default_bound_thorough = 3;
    return main_run( argc, argv, g_scen, o );
}
