// C14: hash sets and maps are linearizable, including during growth (DESIGN.md 9/C14); C18 post-conditions.
#include "sets.h"
#include "seq.h"

#ifndef FAMILY
#   define FAMILY 1
#endif

#if FAMILY == 1
#   include <cds/container/michael_list_hp.h>
#   include <cds/container/lazy_list_dhp.h>
#   include <cds/container/iterable_list_hp.h>
#   include <cds/container/michael_list_rcu.h>
#   include <cds/container/michael_set.h>
#   include <cds/container/michael_set_rcu.h>
#elif FAMILY == 2
#   include <cds/container/michael_list_hp.h>
#   include <cds/container/lazy_list_dhp.h>
#   include <cds/container/split_list_set.h>
#elif FAMILY == 3
#   include <cds/container/iterable_list_hp.h>
#   include <cds/container/michael_list_rcu.h>
#   include <cds/container/split_list_set.h>
#   include <cds/container/split_list_set_rcu.h>
#elif FAMILY == 4
#   include <cds/container/feldman_hashset_hp.h>
#   include <cds/container/feldman_hashset_dhp.h>
#   include <cds/container/feldman_hashset_rcu.h>
#elif FAMILY == 6
#   include "maps.h"
#   include <cds/container/michael_kvlist_hp.h>
#   include <cds/container/michael_kvlist_rcu.h>
#   include <cds/container/michael_map.h>
#   include <cds/container/michael_map_rcu.h>
#   include <cds/container/split_list_map.h>
#   include <cds/container/feldman_hashmap_hp.h>
#elif FAMILY == 5
#   include "intrusive.h"
#   include <cds/intrusive/michael_list_hp.h>
#   include <cds/intrusive/michael_set.h>
#   include <cds/intrusive/split_list.h>
#   include <cds/intrusive/feldman_hashset_hp.h>
#   include <cds/intrusive/feldman_hashset_rcu.h>
#endif

using namespace vh;
using namespace cdsmc;
namespace cc = cds::container;

namespace {

const char* prop() { return vh::property() == "C18" ? "C18" : vh::property() == "C19" ? "C19" : vh::property() == "C20" ? "C20" : "C14"; }
std::vector<Scenario> g_scen;

struct caps_hash: caps_hp { typedef std::false_type ordered_iter; };
struct caps_hash_rcu: caps_rcu { typedef std::false_type ordered_iter; };
struct caps_hash_repl: caps_hash { typedef std::true_type update_replaces; };
struct caps_hash_rcu_repl: caps_hash_rcu { typedef std::true_type update_replaces; };
// thread-safe iterators (C19): containers built on IterableList, and FeldmanHashSet (forward and reverse, "at least once")
struct caps_hash_iter: caps_hash_repl { typedef std::true_type safe_iter; typedef std::true_type has_erase_at; };
struct caps_feldman: caps_hash_repl { typedef std::true_type safe_iter; typedef std::true_type has_erase_at; typedef std::true_type has_riter; typedef std::false_type iter_exactly_once; };
struct caps_feldman_rcu: caps_hash_rcu_repl { typedef std::true_type safe_iter; typedef std::true_type has_riter; typedef std::false_type iter_exactly_once; };

template <class Set, class Smr, class Caps>
void family( std::string const& tname, std::vector<int> keys, int step, int bq = 2, int bt = 3, std::vector<int> iter_keys = std::vector<int>())
{
    typedef SetAdapter<Set, Smr, Caps, prop> A;
    std::string base = tname + "/" + Smr::name();
    if ( vh::property() == "C20" ) {
        // colliding keys; the second start state has grown the table / split slots already
        std::vector<int> ks = { keys[0], keys[1], keys[2] }, u = ks; u.push_back( 0 );
        TProg full; for ( int k : ks ) full.push_back( POp{ INS, k, 0 } );
        for ( int k : iter_keys ) { bool in = false; for ( int q : ks ) if ( q == k ) in = true; if ( !in ) { full.push_back( POp{ INS, k, 0 } ); u.push_back( k ); } }
        add_seq_scenarios<A, Caps>( g_scen, base, ks, u, { TProg(), full }, 3, 4 );
        return;
    }
    if ( vh::property() == "C19" ) {
        if ( Caps::safe_iter::value && !iter_keys.empty()) {
            std::vector<int> u = iter_keys; u.push_back( 0 );
            add_iter_programs<A, Caps>( g_scen, base, { 0, iter_keys[0], iter_keys[1], iter_keys[2], iter_keys[3] }, u, bq, bt );
        }
        return;
    }
    std::vector<int> universe = keys; universe.push_back( 0 );
    add_set_programs<A>( g_scen, base, set_grammar( { INS, DEL, HAS }, { keys[0], keys[1] }, 2, "g" ), 2, 0, step, bq, bt, universe );
    std::vector<Program> cur = set_curated( true, true, { 0, keys[0], keys[1], keys[2] } );
    for ( auto const& p : cur )
        g_scen.push_back( make_scenario<A>( base, p, SetCfg( int( p.threads.size()), universe ), step <= 8 ? 0 : 1, p.threads.size() > 2 ? 2 : bq, p.threads.size() > 2 ? 2 : bt ));
    if ( Caps::has_unlink::value )
        add_unlink_programs<A>( g_scen, base, { 0, keys[0], keys[1], keys[2] }, universe, step, bq, bt );
}

// growth programs: the insert that makes the table grow (or a slot expand) races with operations on keys whose bucket is not
// initialised yet / whose hash shares the prefix; keys: k[0..5]
template <class Set, class Smr, class Caps>
void growth( std::string const& tname, std::vector<int> k, int bq, int bt )
{
    typedef SetAdapter<Set, Smr, Caps, prop> A;
    if ( vh::property() == "C19" || vh::property() == "C20" ) return;
    std::string base = tname + "/" + Smr::name();
    std::vector<int> universe = k; universe.push_back( 0 );
    auto P = [&]( std::string name, TProg pre, std::vector<TProg> th, int q, int t ) {
        Program p; p.name = name; p.prefix = pre; p.threads = th;
        g_scen.push_back( make_scenario<A>( base, p, SetCfg( int( th.size()), universe ), 0, q, t ));
    };
    // two items present; the third insert doubles the table; the next operation touches a bucket that must be initialised first
    P( "grow-vs-has", { { INS, k[0], 0 }, { INS, k[1], 0 } }, { { { INS, k[2], 0 }, { INS, k[3], 0 } }, { { HAS, k[2], 0 }, { HAS, k[3], 0 } } }, bq, bt );
    P( "grow-vs-del", { { INS, k[0], 0 }, { INS, k[1], 0 } }, { { { INS, k[2], 0 }, { HAS, k[1], 0 } }, { { DEL, k[1], 0 }, { INS, k[3], 0 } } }, bq, bt );
    P( "grow-vs-ins-same-bucket", { { INS, k[0], 0 }, { INS, k[1], 0 } }, { { { INS, k[2], 0 }, { INS, k[4], 0 } }, { { INS, k[3], 0 }, { HAS, k[4], 0 } } }, bq, bt );
    P( "two-initialisers", { { INS, k[0], 0 }, { INS, k[1], 0 }, { INS, k[2], 0 } }, { { { INS, k[3], 0 } }, { { HAS, k[3], 0 }, { DEL, k[3], 0 } } }, bq, bt );
    P( "3t-grow", { { INS, k[0], 0 }, { INS, k[1], 0 } }, { { { INS, k[2], 0 } }, { { INS, k[3], 0 } }, { { HAS, k[3], 0 }, { DEL, k[2], 0 } } }, bq > 1 ? 2 : 1, 2 );
    P( "3t-grow-del", { { INS, k[0], 0 }, { INS, k[1], 0 }, { INS, k[2], 0 } }, { { { INS, k[3], 0 } }, { { DEL, k[1], 0 }, { INS, k[5], 0 } }, { { HAS, k[5], 0 }, { HAS, k[1], 0 } } }, bq > 1 ? 2 : 1, 2 );
}

} // namespace

// ---- construction of the tiny tables ------------------------------------------------------------------------------
#if FAMILY == 1
namespace {
struct lt_less: public cc::michael_list::traits { typedef item_less less; };
struct lt_lazy: public cc::lazy_list::traits { typedef item_cmp compare; };
struct lt_iter: public cc::iterable_list::traits { typedef item_less less; };
struct ms_traits: public cc::michael_set::traits { typedef item_hash<2> hash; typedef cds::atomicity::item_counter item_counter; };
typedef cc::MichaelHashSet<cds::gc::HP, cc::MichaelList<cds::gc::HP, Item, lt_less>, ms_traits> mhs_ml_hp;
typedef cc::MichaelHashSet<cds::gc::DHP, cc::LazyList<cds::gc::DHP, Item, lt_lazy>, ms_traits> mhs_ll_dhp;
typedef cc::MichaelHashSet<cds::gc::HP, cc::IterableList<cds::gc::HP, Item, lt_iter>, ms_traits> mhs_il_hp;
typedef cc::MichaelHashSet<rcu_gpb, cc::MichaelList<rcu_gpb, Item, lt_less>, ms_traits> mhs_ml_rcu;
}
namespace vh {
template <> inline mhs_ml_hp* make_set<mhs_ml_hp>( SetCfg const& ) { return new mhs_ml_hp( 2, 1 ); }
template <> inline mhs_ll_dhp* make_set<mhs_ll_dhp>( SetCfg const& ) { return new mhs_ll_dhp( 2, 1 ); }
template <> inline mhs_il_hp* make_set<mhs_il_hp>( SetCfg const& ) { return new mhs_il_hp( 2, 1 ); }
template <> inline mhs_ml_rcu* make_set<mhs_ml_rcu>( SetCfg const& ) { return new mhs_ml_rcu( 2, 1 ); }
}
#elif FAMILY == 2 || FAMILY == 3
namespace {
template <class ListTag, bool Dynamic, class LT>
struct sl_traits: public cc::split_list::traits {
    typedef ListTag ordered_list;
    typedef item_hash_id hash;
    typedef cds::atomicity::item_counter item_counter;
    static const bool dynamic_bucket_table = Dynamic;
    typedef LT ordered_list_traits;
};
struct olt_m: public cc::michael_list::traits { typedef item_less less; };
#if FAMILY == 2
struct olt_l: public cc::lazy_list::traits { typedef item_cmp compare; };
typedef cc::SplitListSet<cds::gc::HP, Item, sl_traits<cc::michael_list_tag, true, olt_m>> sl_ml_dyn;
typedef cc::SplitListSet<cds::gc::HP, Item, sl_traits<cc::michael_list_tag, false, olt_m>> sl_ml_st;
typedef cc::SplitListSet<cds::gc::DHP, Item, sl_traits<cc::lazy_list_tag, true, olt_l>> sl_ll_dyn;
// distinct keys with the same hash value: the ordered list falls back to the key comparator
template <class ListTag, class LT>
struct sl_traits_coll: public sl_traits<ListTag, true, LT> { typedef item_hash<2> hash; };
typedef cc::SplitListSet<cds::gc::HP, Item, sl_traits_coll<cc::michael_list_tag, olt_m>> sl_ml_coll;
typedef cc::SplitListSet<cds::gc::DHP, Item, sl_traits_coll<cc::lazy_list_tag, olt_l>> sl_ll_coll;
#else
struct olt_i: public cc::iterable_list::traits { typedef item_less less; };
typedef cc::SplitListSet<cds::gc::HP, Item, sl_traits<cc::iterable_list_tag, true, olt_i>> sl_il_dyn;
typedef cc::SplitListSet<rcu_gpb, Item, sl_traits<cc::michael_list_tag, true, olt_m>> sl_ml_rcu;
#endif
}
namespace vh {
// 8 buckets at most, load factor 1: the table starts with 2 buckets and doubles at the 3rd and the 5th item
#if FAMILY == 2
template <> inline sl_ml_dyn* make_set<sl_ml_dyn>( SetCfg const& ) { return new sl_ml_dyn( 8, 1 ); }
template <> inline sl_ml_st* make_set<sl_ml_st>( SetCfg const& ) { return new sl_ml_st( 8, 1 ); }
template <> inline sl_ll_dyn* make_set<sl_ll_dyn>( SetCfg const& ) { return new sl_ll_dyn( 8, 1 ); }
template <> inline sl_ml_coll* make_set<sl_ml_coll>( SetCfg const& ) { return new sl_ml_coll( 8, 1 ); }
template <> inline sl_ll_coll* make_set<sl_ll_coll>( SetCfg const& ) { return new sl_ll_coll( 8, 1 ); }
#else
template <> inline sl_il_dyn* make_set<sl_il_dyn>( SetCfg const& ) { return new sl_il_dyn( 8, 1 ); }
template <> inline sl_ml_rcu* make_set<sl_ml_rcu>( SetCfg const& ) { return new sl_ml_rcu( 8, 1 ); }
#endif
}
#elif FAMILY == 4
namespace {
struct key_of { int const& operator()( Item const& i ) const { return i.key; } };
struct fh_traits: public cc::feldman_hashset::traits { typedef key_of hash_accessor; typedef cds::atomicity::item_counter item_counter; };
typedef cc::FeldmanHashSet<cds::gc::HP, Item, fh_traits> fh_hp;
typedef cc::FeldmanHashSet<cds::gc::DHP, Item, fh_traits> fh_dhp;
typedef cc::FeldmanHashSet<rcu_gpb, Item, fh_traits> fh_rcu;
}
namespace vh {
// head and array bits at their minimums (4 and 2): keys sharing the low 4 (6, 8) bits force expansion of a slot into an array node
template <> inline fh_hp* make_set<fh_hp>( SetCfg const& ) { return new fh_hp( 4, 2 ); }
template <> inline fh_dhp* make_set<fh_dhp>( SetCfg const& ) { return new fh_dhp( 4, 2 ); }
template <> inline fh_rcu* make_set<fh_rcu>( SetCfg const& ) { return new fh_rcu( 4, 2 ); }
}
#endif

#if FAMILY == 5
namespace {
namespace ci = cds::intrusive;
typedef node_disposer<prop> disp;
struct caps_ih: caps_hash { typedef std::true_type has_unlink; typedef std::false_type has_emplace; };
struct caps_ih_repl: caps_ih { typedef std::true_type update_replaces; typedef std::true_type safe_iter; typedef std::true_type has_erase_at; typedef std::true_type has_riter; typedef std::false_type iter_exactly_once; };
struct caps_ih_rcu_repl: caps_hash_rcu_repl { typedef std::true_type has_unlink; typedef std::false_type has_emplace; typedef std::true_type safe_iter; typedef std::true_type has_riter; typedef std::false_type iter_exactly_once; };
// MichaelHashSet over the intrusive MichaelList
typedef INode< ci::michael_list::node<cds::gc::HP> > mnode;
struct mltr: public ci::michael_list::traits { typedef ci::michael_list::base_hook< cds::opt::gc<cds::gc::HP> > hook; typedef disp disposer; typedef item_less less; };
struct mstr: public ci::michael_set::traits { typedef item_hash<2> hash; typedef cds::atomicity::item_counter item_counter; };
typedef IWrap< ci::MichaelHashSet<cds::gc::HP, ci::MichaelList<cds::gc::HP, mnode, mltr>, mstr> > imhs;
// SplitListSet over the intrusive MichaelList
typedef INode< ci::split_list::node< ci::michael_list::node<cds::gc::HP> > > snode;
struct sltr: public ci::michael_list::traits { typedef ci::michael_list::base_hook< cds::opt::gc<cds::gc::HP> > hook; typedef disp disposer; typedef item_less less; };
struct sstr: public ci::split_list::traits { typedef item_hash_id hash; typedef cds::atomicity::item_counter item_counter; };
typedef IWrap< ci::SplitListSet<cds::gc::HP, ci::MichaelList<cds::gc::HP, snode, sltr>, sstr> > isls;
// FeldmanHashSet
struct key_of { int const& operator()( Item const& i ) const { return i.key; } };
typedef INode< no_hook > fnode;
struct fhtr: public ci::feldman_hashset::traits { typedef key_of hash_accessor; typedef disp disposer; typedef cds::atomicity::item_counter item_counter; };
typedef IWrap< ci::FeldmanHashSet<cds::gc::HP, fnode, fhtr>, true > ifh_hp;
typedef IWrap< ci::FeldmanHashSet<rcu_gpb, fnode, fhtr>, true > ifh_rcu;
}
namespace vh {
template <> inline imhs* make_set<imhs>( SetCfg const& ) { return new imhs( 2, 1 ); }
template <> inline isls* make_set<isls>( SetCfg const& ) { return new isls( 8, 1 ); }
template <> inline ifh_hp* make_set<ifh_hp>( SetCfg const& ) { return new ifh_hp( 4, 2 ); }
template <> inline ifh_rcu* make_set<ifh_rcu>( SetCfg const& ) { return new ifh_rcu( 4, 2 ); }
}
#endif

#if FAMILY == 6
namespace {
struct int_less { bool operator()( int a, int b ) const { return a < b; } };
struct int_hash2 { size_t operator()( int k ) const { return size_t( k % 2 ); } };
struct int_hash_id { size_t operator()( int k ) const { return size_t( k ); } };
struct caps_hmap: caps_map_hp {};
struct caps_hmap_rcu: caps_map_rcu {};
struct caps_hmap_repl: caps_map_hp { typedef std::true_type update_replaces; };
// MichaelHashMap over MichaelKVList
struct kvl_tr: public cc::michael_list::traits { typedef int_less less; };
struct mm_tr: public cc::michael_map::traits { typedef int_hash2 hash; typedef cds::atomicity::item_counter item_counter; };
typedef MapWrap< cc::MichaelHashMap<cds::gc::HP, cc::MichaelKVList<cds::gc::HP, int, long, kvl_tr>, mm_tr> > mhm_hp;
typedef MapWrap< cc::MichaelHashMap<rcu_gpb, cc::MichaelKVList<rcu_gpb, int, long, kvl_tr>, mm_tr> > mhm_rcu;
// SplitListMap
struct slm_tr: public cc::split_list::traits {
    typedef cc::michael_list_tag ordered_list; typedef int_hash_id hash; typedef cds::atomicity::item_counter item_counter;
    struct ordered_list_traits: public cc::michael_list::traits { typedef int_less less; };
};
typedef MapWrap< cc::SplitListMap<cds::gc::HP, int, long, slm_tr> > slm_hp;
// FeldmanHashMap: the hash of a key is the key itself
struct fhm_tr: public cc::feldman_hashmap::traits { typedef int_hash_id hash; typedef cds::atomicity::item_counter item_counter; };
typedef MapWrap< cc::FeldmanHashMap<cds::gc::HP, int, long, fhm_tr> > fhm_hp;
}
namespace vh {
template <> inline mhm_hp* make_set<mhm_hp>( SetCfg const& ) { return new mhm_hp( 2, 1 ); }
template <> inline mhm_rcu* make_set<mhm_rcu>( SetCfg const& ) { return new mhm_rcu( 2, 1 ); }
template <> inline slm_hp* make_set<slm_hp>( SetCfg const& ) { return new slm_hp( 8, 1 ); }
template <> inline fhm_hp* make_set<fhm_hp>( SetCfg const& ) { return new fhm_hp( 4, 2 ); }
}
#endif

int main( int argc, char** argv )
{
    vh::take_property( argc, argv, "C14" );
    cds::Initialize();

#if FAMILY == 1
    // two buckets, hash = key mod 2: keys 1,3,5 collide in one bucket, 2 lives in the other
    family<mhs_ml_hp, HpHolder<mhs_ml_hp::c_nHazardPtrCount + 2>, caps_hash>( "MichaelHashSet-MichaelList", { 1, 3, 2 }, 4 );
    family<mhs_ll_dhp, DhpHolder, caps_hash>( "MichaelHashSet-LazyList", { 1, 3, 2 }, 12 );
    family<mhs_il_hp, HpHolder<mhs_il_hp::c_nHazardPtrCount + 2>, caps_hash_iter>( "MichaelHashSet-IterableList", { 1, 3, 2 }, 12, 2, 3, { 1, 3, 5, 4 } );
    family<mhs_ml_rcu, GpbHolder, caps_hash_rcu>( "MichaelHashSet-MichaelList", { 1, 3, 2 }, 12 );
#elif FAMILY == 2
    // keys 1,5 share bucket 1 of 4 (and of 2), 3 is in bucket 3 (child of 1), 2 in bucket 2 (child of 0), 7 in bucket 3 / 7
    family<sl_ml_dyn, HpHolder<sl_ml_dyn::c_nHazardPtrCount + 2>, caps_hash>( "SplitListSet-MichaelList-dynamic", { 1, 3, 2 }, 6 );
    growth<sl_ml_dyn, HpHolder<sl_ml_dyn::c_nHazardPtrCount + 2>, caps_hash>( "SplitListSet-MichaelList-dynamic", { 1, 2, 3, 7, 5, 6 }, 2, 3 );
    family<sl_ml_st, HpHolder<sl_ml_st::c_nHazardPtrCount + 2>, caps_hash>( "SplitListSet-MichaelList-static", { 1, 3, 2 }, 16 );
    growth<sl_ml_st, HpHolder<sl_ml_st::c_nHazardPtrCount + 2>, caps_hash>( "SplitListSet-MichaelList-static", { 1, 2, 3, 7, 5, 6 }, 2, 3 );
    family<sl_ll_dyn, DhpHolder, caps_hash>( "SplitListSet-LazyList-dynamic", { 1, 3, 2 }, 16 );
    growth<sl_ll_dyn, DhpHolder, caps_hash>( "SplitListSet-LazyList-dynamic", { 1, 2, 3, 7, 5, 6 }, 1, 2 );
    family<sl_ml_coll, HpHolder<sl_ml_coll::c_nHazardPtrCount + 2>, caps_hash>( "SplitListSet-MichaelList-equal-hashes", { 1, 3, 2 }, 16 );
    family<sl_ll_coll, DhpHolder, caps_hash>( "SplitListSet-LazyList-equal-hashes", { 1, 3, 2 }, 32 );
#elif FAMILY == 3
    family<sl_il_dyn, HpHolder<sl_il_dyn::c_nHazardPtrCount + 2>, caps_hash_iter>( "SplitListSet-IterableList-dynamic", { 1, 3, 2 }, 12, 2, 3, { 1, 3, 5, 2 } );
    growth<sl_il_dyn, HpHolder<sl_il_dyn::c_nHazardPtrCount + 2>, caps_hash_repl>( "SplitListSet-IterableList-dynamic", { 1, 2, 3, 7, 5, 6 }, 2, 3 );
    family<sl_ml_rcu, GpbHolder, caps_hash_rcu>( "SplitListSet-MichaelList-dynamic", { 1, 3, 2 }, 12 );
    growth<sl_ml_rcu, GpbHolder, caps_hash_rcu>( "SplitListSet-MichaelList-dynamic", { 1, 2, 3, 7, 5, 6 }, 2, 3 );
#elif FAMILY == 4
    // 1, 17, 33 share the head slot (low 4 bits) and differ in the next 2 bits; 65 shares 6 bits with 1; 257 shares 8 bits
    // iteration: 1, 17, 33 live in one head slot, so the concurrent insert of 65 (or 49) splits a slot under the iterator
    family<fh_hp, HpHolder<fh_hp::c_nHazardPtrCount + 2>, caps_feldman>( "FeldmanHashSet", { 1, 17, 65 }, 6, 2, 3, { 1, 17, 33, 65 } );
    growth<fh_hp, HpHolder<fh_hp::c_nHazardPtrCount + 2>, caps_hash_repl>( "FeldmanHashSet", { 1, 2, 17, 65, 257, 33 }, 2, 3 );
    family<fh_dhp, DhpHolder, caps_feldman>( "FeldmanHashSet", { 1, 17, 65 }, 16, 2, 3, { 1, 17, 2, 49 } );
    growth<fh_dhp, DhpHolder, caps_hash_repl>( "FeldmanHashSet", { 1, 2, 17, 65, 257, 33 }, 1, 2 );
    family<fh_rcu, GpbHolder, caps_feldman_rcu>( "FeldmanHashSet", { 1, 17, 65 }, 16, 2, 3, { 1, 17, 33, 65 } );
    growth<fh_rcu, GpbHolder, caps_hash_rcu_repl>( "FeldmanHashSet", { 1, 2, 17, 65, 257, 33 }, 2, 3 );
#elif FAMILY == 6
    family<mhm_hp, HpHolder<8>, caps_hmap>( "MichaelHashMap-MichaelKVList", { 1, 3, 2 }, 8 );
    family<mhm_rcu, GpbHolder, caps_hmap_rcu>( "MichaelHashMap-MichaelKVList", { 1, 3, 2 }, 16 );
    family<slm_hp, HpHolder<8>, caps_hmap>( "SplitListMap-MichaelList", { 1, 3, 2 }, 12 );
    growth<slm_hp, HpHolder<8>, caps_hmap>( "SplitListMap-MichaelList", { 1, 2, 3, 7, 5, 6 }, 1, 2 );
    family<fhm_hp, HpHolder<8>, caps_hmap_repl>( "FeldmanHashMap", { 1, 17, 65 }, 12 );
    growth<fhm_hp, HpHolder<8>, caps_hmap_repl>( "FeldmanHashMap", { 1, 2, 17, 65, 257, 33 }, 1, 2 );
#elif FAMILY == 5
    family<imhs, HpHolder<8>, caps_ih>( "intrusive-MichaelHashSet-MichaelList", { 1, 3, 2 }, 8 );
    family<isls, HpHolder<8>, caps_ih>( "intrusive-SplitListSet-MichaelList", { 1, 3, 2 }, 12 );
    growth<isls, HpHolder<8>, caps_ih>( "intrusive-SplitListSet-MichaelList", { 1, 2, 3, 7, 5, 6 }, 1, 2 );
    family<ifh_hp, HpHolder<8>, caps_ih_repl>( "intrusive-FeldmanHashSet", { 1, 17, 65 }, 8, 2, 3, { 1, 17, 33, 65 } );
    growth<ifh_hp, HpHolder<8>, caps_ih_repl>( "intrusive-FeldmanHashSet", { 1, 2, 17, 65, 257, 33 }, 1, 2 );
    family<ifh_rcu, GpbHolder, caps_ih_rcu_repl>( "intrusive-FeldmanHashSet", { 1, 17, 65 }, 16, 2, 3, { 1, 17, 33, 65 } );
#endif

    Options o; o.property = vh::property().c_str();
    o.default_bound_quick = 2; o.default_bound_thorough = 3;
    return main_run( argc, argv, g_scen, o );
}
