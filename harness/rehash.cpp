// C17: resize and rehash never lose or duplicate elements, whatever the hash functions (DESIGN.md 9/C17) - seqmc:
// every sequence of inserts/erases up to a depth, for every configuration of a grid (hash-function tuples incl. constant and
// low-entropy ones, probe-set sizes and thresholds, initial capacities, load factors), replayed on a fresh container; after
// every call the membership and value of every key and size() are compared with std::map.
#include "sets.h"

#ifndef FAMILY
#   define FAMILY 1
#endif

#if FAMILY == 1
#   include <cds/container/cuckoo_set.h>
#elif FAMILY == 2
#   include <cds/container/striped_set/std_list.h>
#   include <cds/container/striped_set/std_set.h>
#   include <cds/container/striped_set/std_vector.h>
#   include <cds/container/striped_set.h>
#elif FAMILY == 3
#   include <cds/container/michael_list_hp.h>
#   include <cds/container/lazy_list_hp.h>
#   include <cds/container/split_list_set.h>
#elif FAMILY == 4
#   include <cds/container/feldman_hashset_hp.h>
#endif
#include <map>
#include <sstream>

using namespace vh;
using namespace cdsmc;
namespace cc = cds::container;

namespace {

// ---- hash functions chosen by the configuration --------------------------------------------------------------------------------
int g_hf[2] = { 1, 4 };
inline size_t hfun( int id, int k )
{
    switch ( id ) {
    case 0: return 0;                                   // constant
    case 1: return size_t( k );                         // identity
    case 2: return size_t( k & 1 );                     // one bit of entropy
    case 3: return size_t( k >> 1 );                    // pairs of keys collide
    case 4: return ~size_t( k );
    case 5: return size_t( k ) << 3;                    // the low three bits are always zero
    case 6: return size_t( k ) * 0x9E3779B97F4A7C15ull; // a good hash
    case 7: return ( k & 1 ) ? ~size_t( 0 ) : 0;        // two values, all bits differ
    case 8: return size_t( k & 3 );
    case 9: return size_t( k ) << 32;                   // entropy only above bit 32
    }
    return size_t( k );
}
const char* hname( int id ) { static const char* n[] = { "const", "id", "bit0", "shr1", "not", "shl3", "good", "allbits", "mod4", "shl32" }; return n[id]; }
struct th1 { size_t operator()( Item const& i ) const { return hfun( g_hf[0], i.key ); } size_t operator()( int k ) const { return hfun( g_hf[0], k ); } };
struct th2 { size_t operator()( Item const& i ) const { return hfun( g_hf[1], i.key ); } size_t operator()( int k ) const { return hfun( g_hf[1], k ); } };

struct RCfg {
    std::vector<int> keys;      // insert alphabet
    std::vector<int> del_keys;  // erase alphabet
    int depth;
    int h1, h2;
    std::vector<int> params;    // meaning depends on the family
    int max_same_hash;          // an insert is skipped if it would bring more than this many present keys with identical hash tuples (0 = no limit)
    bool monotone = false;      // fill mode: keys are inserted in increasing order only (every subset once), which reaches depths the free grammar cannot
};

template <class Set, class Smr>
class RehashRun: public Run
{
    RCfg cfg_; POp first_;
    std::function<Set*( RCfg const& )> make_;
    uint64_t seqs_ = 0, ops_ = 0, skipped_ = 0, grown_ = 0;
    std::string fail_sig_, fail_msg_;

    struct FindV { long* out; template <class I, class Q> void operator()( I& item, Q& ) const { *out = item.val; } template <class I> void operator()( I& item ) const { *out = item.val; } };

    std::string seq_str( TProg const& s ) const { std::string r; for ( auto const& o : s ) { if ( !r.empty()) r += ","; r += o.op == INS ? "ins" : "del"; r += std::to_string( o.a ); } return r; }

    bool run_one( TProg const& seq )
    {
        g_hf[0] = cfg_.h1; g_hf[1] = cfg_.h2;
        std::string ctx = "sequence [" + seq_str( seq ) + "]";
        cds_verif::set_context( ctx.c_str());
        cds_verif::set_step_budget( 3000000 );
        std::unique_ptr<Smr> smr( new Smr( 2 )); attach();
        std::unique_ptr<Set> s( make_( cfg_ ));
        std::map<int, long> model;
        std::string err;
        for ( POp const& o : seq ) {
            int k = int( o.a );
            if ( o.op == INS ) {
                if ( cfg_.max_same_hash && !model.count( k )) {
                    int same = 0; for ( auto const& kv : model ) if ( hfun( cfg_.h1, kv.first ) == hfun( cfg_.h1, k ) && hfun( cfg_.h2, kv.first ) == hfun( cfg_.h2, k )) ++same;
                    if ( same >= cfg_.max_same_hash ) { ++skipped_; continue; }       // cannot be placed by construction of the algorithm: outside the property
                }
                bool ok = s->insert( Item( k )); ++ops_;
                bool exp = !model.count( k );
                if ( ok != exp ) { err = "insert(" + std::to_string( k ) + ") returned " + ( ok ? "true" : "false" ) + ", the model says " + ( exp ? "true" : "false" ); break; }
                if ( ok ) model[k] = k * 10L;
            }
            else {
                bool ok = s->erase( k ); ++ops_;
                bool exp = model.count( k ) != 0;
                if ( ok != exp ) { err = "erase(" + std::to_string( k ) + ") returned " + ( ok ? "true" : "false" ) + ", the model says " + ( exp ? "true" : "false" ); break; }
                model.erase( k );
            }
            // the container holds exactly the model's elements
            for ( int q : cfg_.keys ) {
                long v = 0; bool f = s->find( q, FindV{ &v } ); bool c = s->contains( q );
                bool exp = model.count( q ) != 0;
                if ( f != exp || c != exp ) {
                    err = std::string( "after " ) + ( o.op == INS ? "insert(" : "erase(" ) + std::to_string( k ) + "): key " + std::to_string( q ) + ( exp ? " was inserted successfully and never erased but is not found any more" : " is found but is not in the model" );
                    break;
                }
                if ( f && v != model[q] ) { err = "key " + std::to_string( q ) + " is found with value " + std::to_string( v ) + ", expected " + std::to_string( model[q] ); break; }
            }
            if ( !err.empty()) break;
            if ( s->size() != model.size()) { err = "size() is " + std::to_string( s->size()) + " but " + std::to_string( model.size()) + " elements are present"; break; }
            if ( s->empty() != model.empty()) { err = "empty() disagrees with the contents"; break; }
        }
        if ( err.empty()) { std::string e = structure_check( *s ); if ( !e.empty()) err = e; }
        s.reset(); detach(); smr.reset();
        cds_verif::set_step_budget( 0 ); cds_verif::set_context( "" );
        ++seqs_;
        if ( !err.empty()) { fail_sig_ = "C17:lost-or-duplicated"; fail_msg_ = ctx + ": " + err; return false; }
        return true;
    }
    bool dfs( TProg& cur, int remaining )
    {
        if ( !run_one( cur )) return false;
        if ( remaining == 0 ) return true;
        for ( int k : cfg_.keys ) {
            if ( cfg_.monotone && !cur.empty() && cur.back().op == INS && k <= int( cur.back().a )) continue;
            cur.push_back( POp{ INS, k, 0 } ); bool ok = dfs( cur, remaining - 1 ); cur.pop_back(); if ( !ok ) return false;
        }
        for ( int k : cfg_.del_keys ) { cur.push_back( POp{ DEL, k, 0 } ); bool ok = dfs( cur, remaining - 1 ); cur.pop_back(); if ( !ok ) return false; }
        return true;
    }
public:
    RehashRun( RCfg c, POp first, std::function<Set*( RCfg const& )> mk ): cfg_( c ), first_( first ), make_( mk ) {}
    int nthreads() const override { return 1; }
    void setup() override { TProg cur; cur.push_back( first_ ); dfs( cur, cfg_.depth - 1 ); }
    void thread( int ) override {}
    void check( Result& r ) override
    {
        r.description = "sequences " + std::to_string( seqs_ ) + ", inserts skipped as unplaceable " + std::to_string( skipped_ );
        r.outcome_hash = hash_str( std::to_string( seqs_ ) + "/" + std::to_string( ops_ ) + fail_msg_ ); r.nontrivial = true;
        r.aux[1] = seqs_; r.aux[2] = ops_; r.aux[3] = skipped_;
        if ( !fail_sig_.empty()) r.fail( fail_sig_, fail_msg_ );
    }
};

std::vector<Scenario> g_scen;

// one engine scenario per (configuration, first insert); tier 0 = quick depth, tier 1 = thorough depth
template <class Set, class Smr>
void add_config( std::string const& name, RCfg cfg, int depth_quick, int depth_thorough, std::function<Set*( RCfg const& )> mk )
{
    for ( int tier = 0; tier < 2; ++tier ) {
        if ( tier == 1 && depth_thorough == depth_quick ) continue;
        RCfg c = cfg; c.depth = tier ? depth_thorough : depth_quick;
        for ( int k : cfg.keys ) {
            Scenario s; POp first{ INS, k, 0 };
            s.id = name + "/h1=" + hname( cfg.h1 ) + ",h2=" + hname( cfg.h2 ) + "/" + ( cfg.monotone ? "fill-" : "" ) + "ins" + std::to_string( k ) + "-depth" + std::to_string( c.depth );
            s.make = [c, first, mk]() { return std::unique_ptr<Run>( new RehashRun<Set, Smr>( c, first, mk )); };
            s.tier = tier; s.bound_quick = 0; s.bound_thorough = 0; g_scen.push_back( s );
        }
    }
}

} // namespace

// =================================================================================================================================
#if FAMILY == 1
namespace {
template <class Policy, class Probe, bool Store>
struct ck_traits: public cc::cuckoo::traits {
    typedef cds::opt::hash_tuple< th1, th2 > hash;
    typedef item_equal equal_to; typedef item_less less;
    typedef Policy mutex_policy; typedef Probe probeset_type;
    static bool const store_hash = Store;
    typedef cds::atomicity::item_counter item_counter;
};
typedef cds::intrusive::cuckoo::striping< cds_verif::recursive_mutex, 2 > pol_s;
typedef cds::intrusive::cuckoo::refinable< cds_verif::recursive_mutex, 2 > pol_r;

template <class Set>
void cuckoo_grid( std::string const& name, std::vector<int> probes, bool fixed_probe )
{
    // hash pairs: at least one function degenerate; keys 1..6 (plus 9, 17 which share low bits with 1)
    std::vector<std::pair<int, int>> hp = { { 0, 1 }, { 1, 0 }, { 2, 3 }, { 2, 7 }, { 8, 8 }, { 3, 3 }, { 0, 2 }, { 5, 9 }, { 1, 4 }, { 6, 0 }, { 2, 2 }, { 0, 0 } };
    for ( int probe : probes ) for ( int thr : { 0, 1 } ) {
        if ( thr >= probe ) continue;
        for ( auto const& h : hp ) {
            RCfg c; c.keys = { 1, 2, 3, 5, 9, 17 }; c.del_keys = { 1, 2 }; c.h1 = h.first; c.h2 = h.second; c.params = { 4, probe, thr };
            // 2 tables x probe-set size elements can share a hash tuple, not more (the algorithm cannot place them and resizes forever)
            c.max_same_hash = 2 * probe;
            std::string nm = name + "-probe" + std::to_string( probe ) + "-thr" + std::to_string( thr );
            add_config<Set, NoSmr>( nm, c, 4, 6, []( RCfg const& cf ) { return new Set( size_t( cf.params[0] ), unsigned( cf.params[1] ), unsigned( cf.params[2] )); } );
            (void) fixed_probe;
        }
    }
    // fill mode: up to 12 keys inserted in increasing order (all subsets), thresholds below probe-set size - 1 included: enough colliding
    // keys to fill both probe sets of a cell and then force a resize that has to re-place all of them
    for ( int probe : probes ) for ( int thr = 1; thr < probe; ++thr ) {
        for ( auto const& h : hp ) {
            RCfg c; c.keys = { 1, 2, 3, 5, 9, 17, 33, 65, 129, 257, 513, 1025 }; c.h1 = h.first; c.h2 = h.second; c.params = { 4, probe, thr };
            c.max_same_hash = 2 * probe; c.monotone = true;
            std::string nm = name + "-probe" + std::to_string( probe ) + "-thr" + std::to_string( thr );
            add_config<Set, NoSmr>( nm, c, 12, 12, []( RCfg const& cf ) { return new Set( size_t( cf.params[0] ), unsigned( cf.params[1] ), unsigned( cf.params[2] )); } );
        }
    }
}
}
#elif FAMILY == 2
namespace {
template <class Cont, class Resize, class Policy>
struct st_of {
    typedef cc::StripedSet< Cont, cds::opt::hash<th1>, cds::opt::less<item_less>, cds::opt::mutex_policy<Policy>, cds::opt::resizing_policy<Resize> > type;
};
template <class Set>
void striped_grid( std::string const& name )
{
    for ( int h : { 0, 2, 3, 5, 8, 9, 1 } ) for ( int cap : { 1, 4 } ) {
        RCfg c; c.keys = { 1, 2, 3, 5, 9, 17, 33 }; c.del_keys = { 1, 2 }; c.h1 = h; c.h2 = h; c.params = { cap }; c.max_same_hash = 0;
        add_config<Set, NoSmr>( name + "-cap" + std::to_string( cap ), c, 4, 6, []( RCfg const& cf ) { return new Set( size_t( cf.params[0] )); } );
    }
}
}
#elif FAMILY == 3
namespace {
template <class ListTag, bool Dynamic, class LT>
struct sl_traits: public cc::split_list::traits {
    typedef ListTag ordered_list; typedef th1 hash; typedef cds::atomicity::item_counter item_counter;
    static const bool dynamic_bucket_table = Dynamic; typedef LT ordered_list_traits;
};
struct olt_m: public cc::michael_list::traits { typedef item_less less; };
struct olt_l: public cc::lazy_list::traits { typedef item_cmp compare; };
template <class Set, class Smr>
void split_grid( std::string const& name )
{
    for ( int h : { 0, 2, 3, 5, 8, 9, 7, 1 } ) for ( auto const& p : std::vector<std::pair<int, int>>{ { 2, 1 }, { 8, 1 }, { 8, 2 }, { 16, 4 } } ) {
        RCfg c; c.keys = { 1, 2, 3, 5, 9, 17, 33 }; c.del_keys = { 1, 2 }; c.h1 = h; c.h2 = h; c.params = { p.first, p.second }; c.max_same_hash = 0;
        add_config<Set, Smr>( name + "-items" + std::to_string( p.first ) + "-lf" + std::to_string( p.second ), c, 4, 6,
            []( RCfg const& cf ) { return new Set( size_t( cf.params[0] ), size_t( cf.params[1] )); } );
    }
}
}
#elif FAMILY == 4
namespace {
// FeldmanHashSet needs one unique fixed-size hash per key: the "degenerate" inputs are key sets whose hashes share long prefixes
// (the set consumes the hash from the low bits), so that one insert builds a chain of array nodes
int g_pat = 0;
inline size_t fpat( int pat, int k )
{
    switch ( pat ) {
    case 0: return size_t( k );                              // differ in the lowest bits only
    case 1: return size_t( k ) << 56;                        // low 56 bits equal: the deepest chains
    case 2: return ( size_t( k ) << 32 ) | 0x5;             // low 32 bits equal
    case 3: return ( size_t( k & 1 ) << 63 ) | ( size_t( k >> 1 ) << 8 ) | 0xA5;
    case 4: return size_t( k ) * 0x9E3779B97F4A7C15ull;
    }
    return size_t( k );
}
struct FItem: Item { size_t h; FItem(): h( 0 ) {} FItem( Item const& i ): Item( i ), h( fpat( g_pat, i.key )) {} };
struct f_key_of { size_t const& operator()( FItem const& i ) const { return i.h; } };
struct fh_traits: public cc::feldman_hashset::traits { typedef f_key_of hash_accessor; typedef cds::atomicity::item_counter item_counter; };
typedef cc::FeldmanHashSet<cds::gc::HP, FItem, fh_traits> fh_set;
// the uniform API of RehashRun over the hash-keyed API of FeldmanHashSet
struct FWrap {
    fh_set s; int pat;
    FWrap( int pat_, size_t head, size_t arr ): s( head, arr ), pat( pat_ ) { g_pat = pat_; }
    bool insert( Item const& i ) { g_pat = pat; return s.insert( FItem( i )); }
    bool erase( int k ) { return s.erase( fpat( pat, k )); }
    bool contains( int k ) { return s.contains( fpat( pat, k )); }
    template <class F> bool find( int k, F f ) { return s.find( fpat( pat, k ), [&]( FItem& it ) { f( it ); } ); }
    size_t size() const { return s.size(); }
    bool empty() const { return s.empty(); }
};
}
#endif

int main( int argc, char** argv )
{
    vh::take_property( argc, argv, "C17" );
    cds::Initialize();

#if FAMILY == 1
    // probe-set size 1 (threshold 0) is left out: insert() itself asserts that a bucket it adds to above the threshold ends up with more than one item
    cuckoo_grid< cc::CuckooSet< Item, ck_traits<pol_s, cc::cuckoo::list, false> > >( "CuckooSet-striping-list", { 2, 3, 4 }, false );
    cuckoo_grid< cc::CuckooSet< Item, ck_traits<pol_r, cc::cuckoo::list, true> > >( "CuckooSet-refinable-list-storehash", { 2 }, false );
    cuckoo_grid< cc::CuckooSet< Item, ck_traits<pol_s, cc::cuckoo::vector<2>, true> > >( "CuckooSet-striping-vector2-storehash", { 2 }, true );
    cuckoo_grid< cc::CuckooSet< Item, ck_traits<pol_r, cc::cuckoo::vector<4>, false> > >( "CuckooSet-refinable-vector4", { 4 }, true );
#elif FAMILY == 2
    typedef cc::striped_set::striping< cds_verif::mutex > str; typedef cc::striped_set::refinable< cds_verif::recursive_mutex > ref;
    striped_grid< st_of< std::list<Item>, cc::striped_set::single_bucket_size_threshold<1>, str >::type >( "StripedSet-list-bucket1-striping" );
    striped_grid< st_of< std::list<Item>, cc::striped_set::load_factor_resizing<1>, ref >::type >( "StripedSet-list-lf1-refinable" );
    striped_grid< st_of< std::set<Item, item_less>, cc::striped_set::single_bucket_size_threshold<2>, ref >::type >( "StripedSet-set-bucket2-refinable" );
    striped_grid< st_of< std::vector<Item>, cc::striped_set::load_factor_resizing<2>, str >::type >( "StripedSet-vector-lf2-striping" );
    striped_grid< st_of< std::set<Item, item_less>, cc::striped_set::rational_load_factor_resizing<1, 2>, str >::type >( "StripedSet-set-lf1/2-striping" );
#elif FAMILY == 3
    typedef cc::SplitListSet<cds::gc::HP, Item, sl_traits<cc::michael_list_tag, true, olt_m>> sl_dyn;
    typedef cc::SplitListSet<cds::gc::HP, Item, sl_traits<cc::michael_list_tag, false, olt_m>> sl_st;
    typedef cc::SplitListSet<cds::gc::HP, Item, sl_traits<cc::lazy_list_tag, true, olt_l>> sl_lazy;
    split_grid<sl_dyn, HpHolder<8>>( "SplitListSet-michael-dynamic" );
    split_grid<sl_st, HpHolder<8>>( "SplitListSet-michael-static" );
    split_grid<sl_lazy, HpHolder<8>>( "SplitListSet-lazy-dynamic" );
#elif FAMILY == 4
    for ( int pat : { 0, 1, 2, 3, 4 } ) for ( auto const& p : std::vector<std::pair<int, int>>{ { 4, 2 }, { 4, 4 }, { 8, 3 } } ) {
        RCfg c; c.keys = { 1, 2, 3, 5, 9, 17, 33 }; c.del_keys = { 1, 2 }; c.h1 = 1; c.h2 = 1; c.params = { pat, p.first, p.second }; c.max_same_hash = 0;
        add_config<FWrap, HpHolder<8>>( "FeldmanHashSet-pattern" + std::to_string( pat ) + "-head" + std::to_string( p.first ) + "-array" + std::to_string( p.second ), c, 4, 6,
            []( RCfg const& cf ) { return new FWrap( cf.params[0], size_t( cf.params[1] ), size_t( cf.params[2] )); } );
    }
#endif

    Options o; o.property = vh::property().c_str();
    o.default_bound_quick = 0; o.default_bound_thorough = 0;
    return main_run( argc, argv, g_scen, o );
}
