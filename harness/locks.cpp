// C22: spin locks and node monitors provide mutual exclusion (DESIGN.md 9/C22)
#include "common.h"
#include <cds/init.h>
#include <cds/sync/spinlock.h>
#include <cds/sync/lock_array.h>
#include <cds/sync/injecting_monitor.h>
#include <cds/sync/pool_monitor.h>
#include <cds/memory/vyukov_queue_pool.h>
#include <cds/threading/model.h>
#include <sstream>

using namespace cdsmc;

namespace {

enum LOp { L_LOCK, L_UNLOCK, L_TRY, L_CS };
struct Ins { int op; int n; };
typedef std::vector<Ins> Prog;
constexpr int NLOCK = 3;

// critical-section monitor shared by all lock kinds
struct Monitor {
    int occ[NLOCK] = {}; int owner[NLOCK]; int depth[8][NLOCK] = {};
    std::ostringstream log;
    Monitor() { for ( int& o : owner ) o = -1; }
    void enter( int t, int n, bool reentrant )
    {
        if ( occ[n] > 0 && !( reentrant && owner[n] == t )) {
            std::ostringstream m; m << "t" << t << " entered the critical section of lock/node " << n << " while t" << owner[n] << " is inside";
            cds_verif::fail_sig( "C22:mutual-exclusion", m.str().c_str());
        }
        ++occ[n]; owner[n] = t; ++depth[t][n];
        log << " t" << t << ":in" << n;
    }
    void leave( int t, int n )
    {
        if ( owner[n] != t || occ[n] <= 0 ) { cds_verif::fail_sig( "C22:mutual-exclusion", "critical section left by a thread that is not inside" ); }
        --occ[n]; --depth[t][n]; if ( occ[n] == 0 ) owner[n] = -1;
        log << " t" << t << ":out" << n;
    }
    // one step inside the critical section at which other threads can be scheduled
    atomics::atomic<int> cs_word{0};
    void cs_step() { cs_word.load( atomics::memory_order_relaxed ); }
};

// ---- adapters ---------------------------------------------------------------------------------------------------------
struct SpinKind {
    static const char* name() { return "spin_lock"; } static constexpr bool reentrant = false;
    cds::sync::spin l[NLOCK];
    void lock( int n ) { l[n].lock(); } void unlock( int n ) { l[n].unlock(); } bool try_lock( int n ) { return l[n].try_lock(); }
    void post( Monitor&, int, int, bool ) {}
    std::string quiescent() { for ( auto& x : l ) if ( x.is_locked()) return "a spin lock is left locked"; return std::string(); }
};
struct ReentrantKind {
    static const char* name() { return "reentrant_spin_lock"; } static constexpr bool reentrant = true;
    cds::sync::reentrant_spin32 l[NLOCK];
    void lock( int n ) { l[n].lock(); } void unlock( int n ) { l[n].unlock(); } bool try_lock( int n ) { return l[n].try_lock(); }
    void post( Monitor&, int, int, bool ) {}
    std::string quiescent() { return std::string(); }
};
struct LockArrayKind {
    static const char* name() { return "lock_array"; } static constexpr bool reentrant = false;
    cds::sync::lock_array< cds::sync::spin, cds::sync::mod_select_policy > arr{ 2 };       // hints 0 and 2 share cell 0
    void lock( int n ) { arr.lock( size_t( n )); } void unlock( int n ) { arr.unlock( size_t( n ) & 1 ); } bool try_lock( int n ) { return arr.try_lock( size_t( n )) != decltype( arr )::c_nUnspecifiedCell; }
    void post( Monitor&, int, int, bool ) {}
    std::string quiescent() { return std::string(); }
    static int cell( int n ) { return n & 1; }
};
struct InjNode { cds::sync::injecting_monitor<cds::sync::spin>::node_injection m_SyncMonitorInjection; };
struct InjectingKind {
    static const char* name() { return "injecting_monitor"; } static constexpr bool reentrant = false;
    cds::sync::injecting_monitor<cds::sync::spin> mon; InjNode node[NLOCK];
    void lock( int n ) { mon.lock( node[n] ); } void unlock( int n ) { mon.unlock( node[n] ); } bool try_lock( int ) { return false; }
    void post( Monitor&, int, int, bool ) {}
    std::string quiescent() { return std::string(); }
};
template <class PoolLock, int PoolCap>
struct PoolKind {
    static const char* name() { return PoolCap == 1 ? "pool_monitor-cap1" : "pool_monitor-cap2"; } static constexpr bool reentrant = false;
    typedef cds::memory::vyukov_queue_pool< PoolLock > pool_type;
    typedef cds::sync::pool_monitor< pool_type > monitor;
    struct Node { typename monitor::node_injection m_SyncMonitorInjection; };
    monitor mon{ size_t( PoolCap ) }; Node node[NLOCK];
    void lock( int n ) { mon.lock( node[n] ); } void unlock( int n ) { mon.unlock( node[n] ); } bool try_lock( int ) { return false; }
    // while a thread is inside node n: the node owns a pool lock, and no other node that is in use owns the same one
    void post( Monitor& m, int, int n, bool entering )
    {
        if ( !entering ) return;
        auto* p = node[n].m_SyncMonitorInjection.m_pLock;
        if ( !p ) cds_verif::fail_sig( "C22:pool-lock-missing", "a thread is inside a node's critical section but the node has no lock from the pool" );
        for ( int j = 0; j < NLOCK; ++j )
            if ( j != n && m.occ[j] > 0 && node[j].m_SyncMonitorInjection.m_pLock == p )
                cds_verif::fail_sig( "C22:pool-lock-shared", "one pool lock is attached to two nodes that are both in use" );
    }
    std::string quiescent()
    {
        for ( auto& nd : node ) if ( !nd.m_SyncMonitorInjection.check_free()) return "a node still owns a pool lock (or a reference) at a quiescent point: the lock was not returned to the pool";
        return std::string();
    }
};

template <class Kind>
class LockRun: public Run
{
    std::vector<Prog> progs_;
    Monitor mon_;
    std::unique_ptr<Kind> k_;
    std::string q_;
public:
    explicit LockRun( std::vector<Prog> p ): progs_( p ) {}
    int nthreads() const override { return int( progs_.size()); }
    void setup() override { cds::threading::Manager::attachThread(); k_.reset( new Kind ); }
    void prologue( int ) override { cds::threading::Manager::attachThread(); }
    void epilogue( int ) override { cds::threading::Manager::detachThread(); }
    static int cell( int n, std::true_type ) { return n & 1; }
    static int cell( int n, std::false_type ) { return n; }
    void thread( int t ) override
    {
        typedef std::integral_constant<bool, std::is_same<Kind, LockArrayKind>::value> is_arr;
        for ( auto const& in : progs_[t] ) {
            int c = cell( in.n, is_arr());
            switch ( in.op ) {
            case L_LOCK: k_->lock( in.n ); mon_.enter( t, c, Kind::reentrant ); k_->post( mon_, t, in.n, true ); break;
            case L_TRY: if ( k_->try_lock( in.n )) { mon_.enter( t, c, Kind::reentrant ); k_->post( mon_, t, in.n, true ); mon_.cs_step(); mon_.leave( t, c ); k_->unlock( in.n ); } else mon_.log << " t" << t << ":try" << in.n << "-"; break;
            case L_CS: mon_.cs_step(); break;
            case L_UNLOCK: mon_.leave( t, c ); k_->unlock( in.n ); break;
            }
        }
    }
    void teardown() override { q_ = k_->quiescent(); k_.reset(); cds::threading::Manager::detachThread(); }
    void check( Result& r ) override
    {
        r.description = std::string( Kind::name()) + ":" + mon_.log.str();
        r.outcome_hash = hash_str( mon_.log.str()); r.nontrivial = true;
        if ( !q_.empty()) r.fail( "C22:quiescent", q_ );
    }
};

std::vector<Scenario> g_scen;

template <class Kind>
void family( bool has_try, bool nest, int bq2, int bt2, int bq3, int bt3 )
{
    auto add = [&]( std::string id, std::vector<Prog> p, int bq, int bt ) {
        Scenario s; s.id = std::string( Kind::name()) + "/" + id; s.make = [p]() { return std::unique_ptr<Run>( new LockRun<Kind>( p )); };
        s.bound_quick = bq; s.bound_thorough = bt; g_scen.push_back( s );
    };
    Prog one = { { L_LOCK, 0 }, { L_CS, 0 }, { L_UNLOCK, 0 } };
    Prog two = { { L_LOCK, 0 }, { L_CS, 0 }, { L_UNLOCK, 0 }, { L_LOCK, 0 }, { L_CS, 0 }, { L_UNLOCK, 0 } };
    Prog other = { { L_LOCK, 1 }, { L_CS, 1 }, { L_UNLOCK, 1 }, { L_LOCK, 0 }, { L_CS, 0 }, { L_UNLOCK, 0 } };
    Prog both = { { L_LOCK, 0 }, { L_LOCK, 1 }, { L_CS, 0 }, { L_UNLOCK, 1 }, { L_UNLOCK, 0 } };
    Prog shared = { { L_LOCK, 2 }, { L_CS, 2 }, { L_UNLOCK, 2 } };     // lock_array: hint 2 maps to cell 0; monitors: third node
    add( "1x1", { one, one }, bq2, bt2 );
    add( "2x2", { two, two }, bq2, bt2 );
    add( "cross", { two, other }, bq2, bt2 );
    add( "nested-same-order", { both, both }, bq2, bt2 );
    add( "third", { two, shared }, bq2, bt2 );
    add( "3t", { one, one, one }, bq3, bt3 );
    add( "3t-mixed", { two, other, shared }, bq3, bt3 );
    if ( has_try ) {
        Prog tr = { { L_TRY, 0 }, { L_TRY, 0 } };
        add( "try-vs-lock", { tr, two }, bq2, bt2 );
        add( "try-vs-try", { tr, tr }, bq2, bt2 );
    }
    if ( nest ) {
        Prog nested = { { L_LOCK, 0 }, { L_LOCK, 0 }, { L_CS, 0 }, { L_UNLOCK, 0 }, { L_CS, 0 }, { L_UNLOCK, 0 } };
        Prog tr = { { L_TRY, 0 }, { L_TRY, 0 }, { L_TRY, 0 } };
        add( "reentrant-vs-try", { nested, tr }, bq2, bt2 );
        add( "reentrant-vs-reentrant", { nested, nested }, bq2, bt2 );
        add( "reentrant-3t", { nested, tr, one }, bq3, bt3 );
    }
}

} // namespace

int main( int argc, char** argv )
{
    vh::take_property( argc, argv, "C22" );
    cds::Initialize();
    family<SpinKind>( true, false, 6, 9, 3, 4 );
    family<ReentrantKind>( true, true, 5, 8, 3, 4 );
    family<LockArrayKind>( true, false, 5, 7, 3, 4 );
    family<InjectingKind>( false, false, 5, 7, 3, 4 );
    family<PoolKind<cds::sync::spin, 1>>( false, false, 3, 4, 2, 3 );
    family<PoolKind<cds_verif::mutex, 2>>( false, false, 3, 4, 2, 3 );
    Options o; o.property = vh::property().c_str();
    o.default_bound_quick = 3; o.default_bound_thorough = 5;
    return main_run( argc, argv, g_scen, o );
}
