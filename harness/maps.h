// Map containers (key -> mapped value) behind the uniform set API of sets.h, so that the programs and oracles of C13-C16, C18 and
// C20 run on container::*Map as well. Values are given at construction (insert(key,val), emplace): the library calls the functors of
// insert_with()/update() on an item that is already reachable and leaves synchronising what they write to the user, so the
// functors here only observe; an item created by update() therefore carries the default value 0.
#ifndef VERIF_HARNESS_MAPS_H
#define VERIF_HARNESS_MAPS_H

#include "sets.h"

namespace vh {

template <class T, class = void> struct map_rcu_lock_of { struct type {}; };
template <class T> struct map_rcu_lock_of<T, typename std::enable_if<sizeof( typename T::rcu_lock ) != 0>::type> { typedef typename T::rcu_lock type; };

template <class M>
struct MapWrap {
    M m;
    typedef typename M::value_type pair_type;       // std::pair<const int, long>
    typedef typename map_rcu_lock_of<M>::type rcu_lock;
    template <class... A> explicit MapWrap( A&&... a ): m( std::forward<A>( a )... ) {}
    MapWrap(): m() {}

    // what extract()/get() hand out, copied while the real pointer is still protected
    struct PP { bool ok = false; Item it; explicit operator bool() const { return ok; } Item* operator->() { return &it; } void release() {} };
    template <class P> static PP proxy( P& p ) { PP r; if ( p ) { r.ok = true; r.it = Item( p->first, p->second ); } return r; }
    template <class P> static void rel( P& p, int, decltype( std::declval<P&>().release())* = nullptr ) { p.release(); }
    template <class P> static void rel( P&, long ) {}

    template <class F> struct UpdAd {
        F f; int key;
        void operator()( bool bNew, pair_type& v ) const { Item tmp( v.first, v.second ); f( bNew, tmp, key ); }                 // list / split-list / skip-list / tree maps
        void operator()( pair_type& v, pair_type* old ) const { Item tmp( v.first, v.second ); Item o; f( tmp, old ? &o : (Item*) nullptr ); }   // Feldman: the new item replaces the old one
    };

    bool insert( Item const& i ) { return m.insert( i.key, i.val ); }
    template <class F> bool insert( Item const& i, F f ) { bool ok = m.insert( i.key, i.val ); if ( ok ) { Item tmp( i ); f( tmp ); } return ok; }
    template <class F> std::pair<bool, bool> update( Item const& i, F f, bool allow ) { return m.update( i.key, UpdAd<F>{ f, i.key }, allow ); }
    bool emplace( int k, long v ) { return m.emplace( k, v ); }
    bool erase( int k ) { return m.erase( k ); }
    template <class F> bool erase( int k, F f ) { return m.erase( k, [&]( pair_type& v ) { Item tmp( v.first, v.second ); f( tmp ); } ); }
    bool contains( int k ) { return m.contains( k ); }
    template <class F> bool find( int k, F f ) { return m.find( k, [&]( pair_type& v ) { Item tmp( v.first, v.second ); f( tmp ); } ); }
    template <class S = M> auto extract( int k ) -> decltype( std::declval<S&>().extract( k ), PP()) { auto p = m.extract( k ); PP r = proxy( p ); rel( p, 0 ); return r; }
    template <class S = M> auto get( int k ) -> decltype( std::declval<S&>().get( k ), PP()) { auto p = m.get( k ); return proxy( p ); }
    template <class S = M> auto extract_min() -> decltype( std::declval<S&>().extract_min(), PP()) { auto p = m.extract_min(); PP r = proxy( p ); rel( p, 0 ); return r; }
    template <class S = M> auto extract_max() -> decltype( std::declval<S&>().extract_max(), PP()) { auto p = m.extract_max(); PP r = proxy( p ); rel( p, 0 ); return r; }
    size_t size() const { return m.size(); }
    bool empty() const { return m.empty(); }
    void clear() { m.clear(); }
};

// capability sets: no traversal through the set-style iterator (the maps' iterators yield pairs), functor-less inserts, update() creates value 0
struct caps_map_hp: caps_hp { typedef std::false_type has_iter; typedef std::false_type ordered_iter; typedef std::false_type has_ins_f; typedef std::true_type upd_default_value; };
struct caps_map_rcu: caps_rcu { typedef std::false_type has_iter; typedef std::false_type ordered_iter; typedef std::false_type has_ins_f; typedef std::true_type upd_default_value; };

} // namespace vh

#endif
