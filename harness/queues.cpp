// C06: unbounded MPMC queues are linearizable FIFO queues (DESIGN.md 9/C06).
// FAMILY selects which container types this translation unit instantiates (compile time is the bottleneck).
#include "cont.h"
#include "seq.h"
#include "smr_holders.h"

#ifndef FAMILY
#   define FAMILY 1
#endif

#if FAMILY == 1
#   include <cds/container/msqueue.h>
#   include <cds/container/moir_queue.h>
#elif FAMILY == 2
#   include <cds/container/basket_queue.h>
#elif FAMILY == 3
#   include <cds/container/optimistic_queue.h>
#elif FAMILY == 4
#   include <cds/container/rwqueue.h>
#   include <cds/container/fcqueue.h>
#   include <list>
#elif FAMILY == 5
#   include <cds/intrusive/msqueue.h>
#   include <cds/intrusive/moir_queue.h>
#   include <cds/intrusive/basket_queue.h>
#   include <cds/intrusive/optimistic_queue.h>
#   include <cds/intrusive/fcqueue.h>
#   include <boost/intrusive/list.hpp>
#endif

using namespace vh;
using namespace cdsmc;
namespace cc = cds::container;

namespace {

struct QCfg { int nthreads; int flip; };   // flip: which enqueue overload odd/even values go through

template <class Q> inline void thread_exit_hook( Q& ) {}
#if FAMILY == 4
template <class T, class S, class Tr> inline void thread_exit_hook( cc::FCQueue<T, S, Tr>& q )
{
    // what the exit of a thread does to its flat-combining publication record (boost TSS clean-up -> tls_cleanup)
    q.m_FlatCombining.m_pThreadRec.reset();
}
#endif

template <class Q> inline long collided_of( Q&, std::false_type ) { return 0; }
template <class Q> inline long collided_of( Q& q, std::true_type ) { return long( q.statistics().m_nCollided.get()); }

template <class Q, class Smr, bool HasStat = false>
struct QueueAdapter
{
    QCfg cfg;
    std::unique_ptr<Smr> smr;
    std::unique_ptr<Q> q;
    explicit QueueAdapter( QCfg c ): cfg( c ) {}
    static const char* property() { return "C06"; }

    void setup() { smr.reset( new Smr( cfg.nthreads + 1 )); attach(); q.reset( new Q ); }
    void teardown() { q.reset(); detach(); smr.reset(); }
    void thread_begin( int ) { attach(); }
    void thread_end( int ) { thread_exit_hook( *q ); detach(); }

    void apply( int t, History& h, POp const& op )
    {
        switch ( op.op ) {
        case ENQ: {
            // both overloads are exercised: odd values through enqueue( T const& ), even ones through enqueue( T&& )
            int i = h.call( t, ENQ, op.a ); Payload pl( op.a );
            bool ok = (( op.a + cfg.flip ) & 1 ) ? q->enqueue( pl ) : q->enqueue( std::move( pl ));
            h.ret( i, ok ); break;
        }
        case DEQ: { int i = h.call( t, DEQ ); Payload v; bool ok = q->dequeue( v ); h.ret( i, ok, ok ? v.read() : 0 ); break; }
        case EMPTY: { int i = h.call( t, EMPTY ); h.ret( i, q->empty() ? 1 : 0 ); break; }
        case CLEAR: { int i = h.call( t, CLEAR ); q->clear(); h.ret( i, 1 ); break; }
        default: break;
        }
    }
    void drain( History& h )
    {
        for ( int n = 0; n < 64; ++n ) {
            int i = h.call( -1, DEQ ); Payload v; bool ok = q->dequeue( v ); h.ret( i, ok, ok ? v.read() : 0 );
            if ( !ok ) break;
        }
        int i = h.call( -1, EMPTY ); h.ret( i, q->empty());
    }
    long collided = 0;
    void quiescent( Result&, History const& ) { collided = collided_of( *q, std::integral_constant<bool, HasStat>()); }
    void post_check( Result& r, History const& ) { r.aux[1] = uint64_t( collided ); }
    FifoSpec spec() const { return FifoSpec(); }
};

std::vector<Scenario> g_scen;

// step: every step-th grammar program is in the quick tier, the others are thorough-only; bq/bt: preemption bounds
template <class Ad, class Smr>
void add_family_ad( std::string const& tname, int step, int bq = 2, int bt = 3, int bq3 = 2, int bt3 = 2, int flip = 0 )
{
    std::string base = tname + "/" + Smr::name() + ( flip ? "/flip" : "" );
    if ( vh::property() == "C20" ) {
        // single-threaded conformance with std::deque: all sequences over {enqueue odd (lvalue), enqueue even (rvalue), dequeue, empty, clear}
        std::vector<POp> alpha = { { ENQ, 1, 0 }, { ENQ, 2, 0 }, { DEQ, 0, 0 }, { EMPTY, 0, 0 }, { CLEAR, 0, 0 } };
        add_seq_generic<Ad, QCfg>( g_scen, base, QCfg{ 1, flip }, alpha, { TProg(), { { ENQ, 7, 0 }, { ENQ, 8, 0 }, { ENQ, 9, 0 } } }, 5, 7 );
        return;
    }
    // grammar: every 2-thread program with 1..2 operations per thread over {enq, deq} on prefixes [], [x], [x,y]
    std::vector<POp> alpha = { { ENQ, 0, 0 }, { DEQ, 0, 0 } };
    std::vector<TProg> seqs = sequences( alpha, 2 );
    std::vector<TProg> prefixes = { {}, { { ENQ, 91, 0 } }, { { ENQ, 91, 0 }, { ENQ, 92, 0 } } };
    std::vector<Program> progs = two_thread_programs( seqs, prefixes, "g" );
    // give every enqueue a distinct value
    for ( auto& p : progs ) { long v = 1; for ( auto& t : p.threads ) for ( auto& o : t ) if ( o.op == ENQ ) o.a = v++; }
    int n = 0;
    for ( auto const& p : progs )
        g_scen.push_back( make_scenario<Ad>( base, p, QCfg{ 2, flip }, ( n++ % step ) == 0 ? 0 : 1, bq, bt ));
    // curated 3-thread programs
    std::vector<Program> cur;
    { Program p; p.name = "2enq-1deq"; p.threads = { { { ENQ, 1, 0 } }, { { ENQ, 2, 0 } }, { { DEQ, 0, 0 }, { DEQ, 0, 0 } } }; cur.push_back( p ); }
    { Program p; p.name = "enq-deq-deq"; p.prefix = { { ENQ, 91, 0 } }; p.threads = { { { ENQ, 1, 0 } }, { { DEQ, 0, 0 } }, { { DEQ, 0, 0 } } }; cur.push_back( p ); }
    { Program p; p.name = "deq3-on-2"; p.prefix = { { ENQ, 91, 0 }, { ENQ, 92, 0 } }; p.threads = { { { DEQ, 0, 0 } }, { { DEQ, 0, 0 } }, { { DEQ, 0, 0 }, { ENQ, 1, 0 } } }; cur.push_back( p ); }
    for ( auto const& p : cur )
        g_scen.push_back( make_scenario<Ad>( base, p, QCfg{ 3, flip }, step == 1 ? 0 : 1, bq3, bt3 ));
    // deeper 2-thread programs (3 operations each), thorough tier
    {
        Program p; p.name = "deep-eed-dde"; p.threads = { { { ENQ, 1, 0 }, { ENQ, 2, 0 }, { DEQ, 0, 0 } }, { { DEQ, 0, 0 }, { DEQ, 0, 0 }, { ENQ, 3, 0 } } };
        g_scen.push_back( make_scenario<Ad>( base, p, QCfg{ 2, flip }, 1, bq, bt ));
        Program p2; p2.name = "deep-ede-ded"; p2.prefix = { { ENQ, 91, 0 } }; p2.threads = { { { ENQ, 1, 0 }, { DEQ, 0, 0 }, { ENQ, 2, 0 } }, { { DEQ, 0, 0 }, { ENQ, 3, 0 }, { DEQ, 0, 0 } } };
        g_scen.push_back( make_scenario<Ad>( base, p2, QCfg{ 2, flip }, 1, bq, bt ));
    }
}

template <class Q, class Smr, bool HasStat = false>
void add_family( std::string const& tname, int step, int bq = 2, int bt = 3, int bq3 = 2, int bt3 = 2, int flip = 0 )
{
    add_family_ad<QueueAdapter<Q, Smr, HasStat>, Smr>( tname, step, bq, bt, bq3, bt3, flip );
}

#if FAMILY == 5
// ---- intrusive queues: the harness owns the items; the queue links them and calls the disposer ---------------------------------
// A dequeued item may still serve as the queue's dummy node (MSQueue family): it may be reused only after the disposer was called
// for it. The harness never reuses items inside an execution; the disposer reports the item to the engine, so every later access
// of the library to it is a violation; at the end every enqueued item must have been disposed exactly once.
struct IQArena {
    struct Ent { void* p; int* disposed; long v; void (*del)( void* ); };
    std::vector<Ent> all;
    void reset() { cds_verif::regions_reset(); for ( auto& e : all ) e.del( e.p ); all.clear(); }
    static IQArena& get() { static IQArena a; return a; }
};
std::string g_iq_err;
struct iq_disposer {
    template <class T> void operator()( T* p ) const
    {
        if ( ++p->disposed > 1 ) { g_iq_err = "the disposer is called a second time for the item with value " + std::to_string( p->v ); if ( cds_verif::active()) vh::fail_mid( "C06:disposed-twice", g_iq_err ); }
        cds_verif::region_freed( static_cast<void*>( p ), sizeof( T ), "queue item handed to the disposer" );
    }
};
template <class Hook> struct QItem: Hook { long v; int disposed = 0; explicit QItem( long x ): v( x ) {} };

template <class Q, class Smr, bool FC = false>
struct IQueueAdapter
{
    typedef typename Q::value_type item;
    QCfg cfg; std::unique_ptr<Smr> smr; std::unique_ptr<Q> q;
    explicit IQueueAdapter( QCfg c ): cfg( c ) {}
    static const char* property() { return vh::property() == "C20" ? "C20" : "C06"; }
    void setup() { IQArena::get().reset(); g_iq_err.clear(); smr.reset( new Smr( cfg.nthreads + 1 )); attach(); q.reset( new Q ); }
    void teardown() { q.reset(); detach(); smr.reset(); }
    void thread_begin( int ) { attach(); }
    void thread_end( int ) { exit_hook( std::integral_constant<bool, FC>()); detach(); }
    void exit_hook( std::true_type ) { q->m_FlatCombining.m_pThreadRec.reset(); }
    void exit_hook( std::false_type ) {}
    void apply( int t, History& h, POp const& op )
    {
        switch ( op.op ) {
        case ENQ: {
            int i = h.call( t, ENQ, op.a );
            item* p = new item( op.a );
            IQArena::get().all.push_back( IQArena::Ent{ p, &p->disposed, op.a, []( void* x ) { delete static_cast<item*>( x ); } } );
            bool ok = q->enqueue( *p ); h.ret( i, ok ); break;
        }
        case DEQ: {
            int i = h.call( t, DEQ ); item* p = q->dequeue();
            if ( p && p->disposed ) { g_iq_err = "dequeue() returned an item that has already been disposed"; }
            h.ret( i, p != nullptr, p ? p->v : 0 ); break;
        }
        case EMPTY: { int i = h.call( t, EMPTY ); h.ret( i, q->empty() ? 1 : 0 ); break; }
        case CLEAR: { int i = h.call( t, CLEAR ); q->clear(); h.ret( i, 1 ); break; }
        default: break;
        }
    }
    void drain( History& h )
    {
        for ( int n = 0; n < 64; ++n ) { int i = h.call( -1, DEQ ); item* p = q->dequeue(); h.ret( i, p != nullptr, p ? p->v : 0 ); if ( !p ) break; }
        int i = h.call( -1, EMPTY ); h.ret( i, q->empty());
    }
    std::string q_err;
    void quiescent( Result&, History const& ) { q_err = g_iq_err; }
    void post_check( Result& r, History const& )
    {
        if ( !g_iq_err.empty()) { r.fail( "C06:disposer", g_iq_err ); return; }
        if ( FC ) return;       // FCQueue never disposes dequeued items (the caller owns them), only clear( true ) does
        // after the queue and the SMR are gone: every item that went through the queue has been disposed exactly once
        for ( auto const& e : IQArena::get().all )
            if ( *e.disposed != 1 ) { r.fail( "C06:disposer", "the item with value " + std::to_string( e.v ) + " was disposed " + std::to_string( *e.disposed ) + " times by the time the queue and its reclamation scheme are destroyed" ); return; }
    }
    FifoSpec spec() const { return FifoSpec(); }
};
#endif

#if FAMILY == 4
struct rw_tr: public cc::rwqueue::traits { typedef cds_verif::mutex lock_type; };
struct fc_tr: public cc::fcqueue::traits { typedef cds_verif::mutex lock_type; };
struct fc_el: public cc::fcqueue::traits { static constexpr const bool enable_elimination = true; typedef cc::fcqueue::stat<> stat; };
#endif

} // namespace

int main( int argc, char** argv )
{
    vh::take_property( argc, argv, "C06" );
    cds::Initialize();

#if FAMILY == 1
    {
        typedef cc::MSQueue<cds::gc::HP, Payload> ms_hp;
        typedef cc::MSQueue<cds::gc::DHP, Payload> ms_dhp;
        struct tr_cnt_sc: public cc::msqueue::traits { typedef cds::atomicity::item_counter item_counter; typedef cds::opt::v::sequential_consistent memory_model; };
        typedef cc::MSQueue<cds::gc::HP, Payload, tr_cnt_sc> ms_hp_cnt_sc;
        typedef cc::MoirQueue<cds::gc::HP, Payload> moir_hp;
        typedef cc::MoirQueue<cds::gc::DHP, Payload> moir_dhp;
        add_family<ms_hp, HpHolder<ms_hp::c_nHazardPtrCount + 1>>( "MSQueue", 1 );
        add_family<ms_dhp, DhpHolder>( "MSQueue", 3 );
        add_family<ms_hp_cnt_sc, HpHolder<ms_hp::c_nHazardPtrCount + 1>>( "MSQueue-counter-seqcst", 3 );
        add_family<moir_hp, HpHolder<moir_hp::c_nHazardPtrCount + 1>>( "MoirQueue", 1 );
        add_family<moir_dhp, DhpHolder>( "MoirQueue", 3 );
        add_family<ms_hp, HpHolder<ms_hp::c_nHazardPtrCount + 1>>( "MSQueue", 3, 2, 3, 2, 2, 1 );
    }
#elif FAMILY == 2
    {
        typedef cc::BasketQueue<cds::gc::HP, Payload> bq_hp;
        typedef cc::BasketQueue<cds::gc::DHP, Payload> bq_dhp;
        struct tr_cnt_sc: public cc::basket_queue::traits { typedef cds::atomicity::item_counter item_counter; typedef cds::opt::v::sequential_consistent memory_model; };
        typedef cc::BasketQueue<cds::gc::HP, Payload, tr_cnt_sc> bq_hp_cnt_sc;
        add_family<bq_hp, HpHolder<bq_hp::c_nHazardPtrCount + 1>>( "BasketQueue", 1 );
        add_family<bq_dhp, DhpHolder>( "BasketQueue", 3, 2, 3, 2, 2, 1 );
        add_family<bq_hp_cnt_sc, HpHolder<bq_hp::c_nHazardPtrCount + 1>>( "BasketQueue-counter-seqcst", 3 );
    }
#elif FAMILY == 3
    {
        typedef cc::OptimisticQueue<cds::gc::HP, Payload> oq_hp;
        typedef cc::OptimisticQueue<cds::gc::DHP, Payload> oq_dhp;
        struct tr_cnt_sc: public cc::optimistic_queue::traits { typedef cds::atomicity::item_counter item_counter; typedef cds::opt::v::sequential_consistent memory_model; };
        typedef cc::OptimisticQueue<cds::gc::HP, Payload, tr_cnt_sc> oq_hp_cnt_sc;
        add_family<oq_hp, HpHolder<oq_hp::c_nHazardPtrCount + 1>>( "OptimisticQueue", 1 );
        add_family<oq_dhp, DhpHolder>( "OptimisticQueue", 3, 2, 3, 2, 2, 1 );
        add_family<oq_hp_cnt_sc, HpHolder<oq_hp::c_nHazardPtrCount + 1>>( "OptimisticQueue-counter-seqcst", 3 );
    }
#elif FAMILY == 5
    {
        namespace ci = cds::intrusive;
        typedef QItem< ci::msqueue::node<cds::gc::HP> > ms_item;
        struct ms_tr: public ci::msqueue::traits { typedef ci::msqueue::base_hook< cds::opt::gc<cds::gc::HP> > hook; typedef iq_disposer disposer; typedef cds::atomicity::item_counter item_counter; };
        typedef ci::MSQueue<cds::gc::HP, ms_item, ms_tr> ims;
        typedef ci::MoirQueue<cds::gc::HP, ms_item, ms_tr> imoir;
        typedef QItem< ci::msqueue::node<cds::gc::DHP> > ms_item_d;
        struct ms_tr_d: public ci::msqueue::traits { typedef ci::msqueue::base_hook< cds::opt::gc<cds::gc::DHP> > hook; typedef iq_disposer disposer; };
        typedef ci::MSQueue<cds::gc::DHP, ms_item_d, ms_tr_d> ims_d;
        typedef QItem< ci::basket_queue::node<cds::gc::HP> > bq_item;
        struct bq_tr: public ci::basket_queue::traits { typedef ci::basket_queue::base_hook< cds::opt::gc<cds::gc::HP> > hook; typedef iq_disposer disposer; };
        typedef ci::BasketQueue<cds::gc::HP, bq_item, bq_tr> ibq;
        typedef QItem< ci::optimistic_queue::node<cds::gc::DHP> > oq_item;
        struct oq_tr: public ci::optimistic_queue::traits { typedef ci::optimistic_queue::base_hook< cds::opt::gc<cds::gc::DHP> > hook; typedef iq_disposer disposer; };
        typedef ci::OptimisticQueue<cds::gc::DHP, oq_item, oq_tr> ioq;
        typedef QItem< boost::intrusive::list_base_hook<> > fc_item;
        struct ifc_tr: public ci::fcqueue::traits { typedef iq_disposer disposer; };
        typedef ci::FCQueue<fc_item, boost::intrusive::list<fc_item>, ifc_tr> ifc;
        add_family_ad<IQueueAdapter<ims, HpHolder<ims::c_nHazardPtrCount + 1>>, HpHolder<ims::c_nHazardPtrCount + 1>>( "intrusive-MSQueue-counter", 2 );
        add_family_ad<IQueueAdapter<imoir, HpHolder<imoir::c_nHazardPtrCount + 1>>, HpHolder<imoir::c_nHazardPtrCount + 1>>( "intrusive-MoirQueue", 3 );
        add_family_ad<IQueueAdapter<ims_d, DhpHolder>, DhpHolder>( "intrusive-MSQueue", 3 );
        add_family_ad<IQueueAdapter<ibq, HpHolder<ibq::c_nHazardPtrCount + 1>>, HpHolder<ibq::c_nHazardPtrCount + 1>>( "intrusive-BasketQueue", 2 );
        add_family_ad<IQueueAdapter<ioq, DhpHolder>, DhpHolder>( "intrusive-OptimisticQueue", 2 );
        add_family_ad<IQueueAdapter<ifc, NoSmr, true>, NoSmr>( "intrusive-FCQueue", 1, 1, 2, 1, 2 );
    }
#elif FAMILY == 4
    {
        typedef cc::RWQueue<Payload, rw_tr> rwq_mutex;
        typedef cc::RWQueue<Payload> rwq_spin;
        typedef cc::FCQueue<Payload> fcq;
        typedef cc::FCQueue<Payload, std::queue<Payload>, fc_el> fcq_elim;
        typedef cc::FCQueue<Payload, std::queue<Payload, std::list<Payload>>, fc_tr> fcq_list_mutex;
        add_family<rwq_mutex, NoSmr>( "RWQueue-mutex", 1, 6, 12, 4, 6 );
        add_family<rwq_spin, NoSmr>( "RWQueue-spin", 1, 4, 8, 3, 4 );
        add_family<fcq, NoSmr>( "FCQueue", 1, 1, 2, 1, 2 );
        add_family<fcq_elim, NoSmr, true>( "FCQueue-elimination", 1, 1, 2, 1, 2 );
        add_family<fcq_list_mutex, NoSmr>( "FCQueue-list-mutex", 2, 1, 2, 1, 1 );
        add_family<fcq, NoSmr>( "FCQueue", 2, 1, 2, 1, 1, 1 );
        add_family<fcq_elim, NoSmr, true>( "FCQueue-elimination", 1, 1, 2, 1, 2, 1 );
    }
#endif

    Options o; o.property = vh::property().c_str();
    o.default_bound_quick = 2; o.default_bound_thorough = 3;
    return main_run( argc, argv, g_scen, o );
}
