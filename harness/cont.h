// Generic container harness: programs (sequential prefix + per-thread operation lists) run against an adapter
// around a real libcds container; the recorded history is checked against a sequential specification.
#ifndef VERIF_HARNESS_CONT_H
#define VERIF_HARNESS_CONT_H

#include "common.h"
#include <deque>
#include <map>
#include <set>
#include <sstream>
#include <algorithm>

namespace vh {

enum OpCode : int {
    // queues / stacks / deques / priority queues
    ENQ = 1, DEQ, PUSH, POP, PUSH_F, PUSH_B, POP_F, POP_B, PQ_PUSH, PQ_POP,
    // sets / maps
    INS, DEL, HAS, UPD_INS, UPD_NOINS, EXTRACT, GET, INS_F, DEL_F, FIND_F, EMPLACE, UNLINK, EXT_MIN, EXT_MAX,
    // misc
    FRONT, POP_FRONT, SIZE, EMPTY, CLEAR,
    // iteration with a thread-safe iterator (not an atomic operation: judged by interval rules, C19); argument: key to erase_at(), 0 = none
    ITER, RITER
};

inline const char* op_name( int op )
{
    switch ( op ) {
    case ENQ: return "enq"; case DEQ: return "deq"; case PUSH: return "push"; case POP: return "pop";
    case PUSH_F: return "push_front"; case PUSH_B: return "push_back"; case POP_F: return "pop_front"; case POP_B: return "pop_back";
    case PQ_PUSH: return "pq_push"; case PQ_POP: return "pq_pop";
    case INS: return "ins"; case DEL: return "del"; case HAS: return "has"; case UPD_INS: return "upsert"; case UPD_NOINS: return "update";
    case EXTRACT: return "extract"; case GET: return "get"; case INS_F: return "ins_f"; case DEL_F: return "del_f"; case FIND_F: return "find_f";
    case EMPLACE: return "emplace"; case UNLINK: return "unlink"; case EXT_MIN: return "extract_min"; case EXT_MAX: return "extract_max";
    case ITER: return "iter"; case RITER: return "riter";
    case FRONT: return "front"; case POP_FRONT: return "pop_front1"; case SIZE: return "size"; case EMPTY: return "empty"; case CLEAR: return "clear";
    }
    return "?";
}

struct POp { int op; long a; long b; };
typedef std::vector<POp> TProg;

struct Program {
    std::string name;
    TProg prefix;                   // executed by the controller before the threads start
    std::vector<TProg> threads;
    bool drain = true;              // after the threads: empty the container through its API (adapter decides how)
};

inline std::string prog_str( Program const& p )
{
    auto one = []( TProg const& t ) {
        std::string s;
        for ( auto const& o : t ) {
            if ( !s.empty()) s += ",";
            s += op_name( o.op );
            bool has_arg = !( o.op == DEQ || o.op == POP || o.op == POP_F || o.op == POP_B || o.op == PQ_POP || o.op == EXT_MIN || o.op == EXT_MAX || o.op == FRONT || o.op == POP_FRONT || o.op == SIZE || o.op == EMPTY || o.op == CLEAR );
            if ( has_arg ) s += std::to_string( o.a );
        }
        return s;
    };
    std::string s = "[" + one( p.prefix ) + "]";
    for ( auto const& t : p.threads ) s += "|" + one( t );
    return s;
}

inline std::string op_event( cdsmc::Op const& o, bool ret )
{
    std::ostringstream s;
    if ( !ret ) { s << op_name( o.op ) << "(" << o.arg; if ( o.arg2 ) s << "," << o.arg2; s << ")"; }
    else { s << "->" << o.res; if ( o.res2 ) s << "/" << o.res2; }
    return s.str();
}

// Value type stored in value-based containers: behaves like a long and reports every construction, copy, move, assignment,
// read and destruction of its bytes to the happens-before tracker (DESIGN 7.6; a no-op unless the run uses --hb).
struct Payload {
    long v;
    Payload() noexcept: v( -1 ) { cds_verif::hb_access( this, true, "default-construct" ); }
    Payload( long x ) noexcept: v( x ) { cds_verif::hb_access( this, true, "construct" ); }
    Payload( Payload const& o ) noexcept: v( o.read()) { cds_verif::hb_access( this, true, "copy-construct" ); }
    Payload( Payload&& o ) noexcept: v( o.read()) { cds_verif::hb_access( this, true, "move-construct" ); }
    Payload& operator=( Payload const& o ) noexcept { long x = o.read(); cds_verif::hb_access( this, true, "assign" ); v = x; return *this; }
    Payload& operator=( Payload&& o ) noexcept { long x = o.read(); cds_verif::hb_access( this, true, "move-assign" ); v = x; return *this; }
    ~Payload() { cds_verif::hb_access( this, true, "destroy" ); cds_verif::hb_forget( this ); }
    long read() const noexcept { cds_verif::hb_access( this, false, "read" ); return v; }
    operator long() const noexcept { return read(); }
    friend bool operator<( Payload const& a, Payload const& b ) noexcept { return a.read() < b.read(); }
    friend bool operator==( Payload const& a, Payload const& b ) noexcept { return a.read() == b.read(); }
};

// ---- sequential specifications --------------------------------------------------------------------------------
// result conventions: ENQ/PUSH*: res = 1 ok, 0 refused (full). DEQ/POP*: res = 1 and res2 = value, or res = 0 (empty).

struct FifoSpec {
    std::deque<long> q; long cap = -1;      // cap < 0: unbounded
    bool step( cdsmc::Op const& o )
    {
        switch ( o.op ) {
        case ENQ: case PUSH_B:
            if ( o.res ) { if ( cap >= 0 && long( q.size()) >= cap ) return false; q.push_back( o.arg ); return true; }
            return cap >= 0 && long( q.size()) >= cap;
        case DEQ: case POP_F: case POP_FRONT:
            if ( o.res ) { if ( q.empty() || ( q.front() != o.res2 && !( o.op == POP_FRONT && o.res2 == -1 ))) return false; q.pop_front(); return true; }
            return q.empty();
        case FRONT:
            if ( o.res ) return !q.empty() && q.front() == o.res2;
            return q.empty();
        case SIZE: return long( q.size()) == o.res;
        case EMPTY: return ( q.empty() ? 1 : 0 ) == o.res;
        case CLEAR: q.clear(); return true;
        }
        return false;
    }
    std::string key() const { std::string s; for ( long v : q ) { s += std::to_string( v ); s += ','; } return s; }
};

struct LifoSpec {
    std::vector<long> s;
    bool step( cdsmc::Op const& o )
    {
        switch ( o.op ) {
        case PUSH: if ( !o.res ) return false; s.push_back( o.arg ); return true;
        case POP:
            if ( o.res ) { if ( s.empty() || s.back() != o.res2 ) return false; s.pop_back(); return true; }
            return s.empty();
        case EMPTY: return ( s.empty() ? 1 : 0 ) == o.res;
        case SIZE: return long( s.size()) == o.res;
        case CLEAR: s.clear(); return true;
        }
        return false;
    }
    std::string key() const { std::string r; for ( long v : s ) { r += std::to_string( v ); r += ','; } return r; }
};

struct DequeSpec {
    std::deque<long> d;
    bool step( cdsmc::Op const& o )
    {
        switch ( o.op ) {
        case PUSH_F: if ( !o.res ) return false; d.push_front( o.arg ); return true;
        case PUSH_B: if ( !o.res ) return false; d.push_back( o.arg ); return true;
        case POP_F:
            if ( o.res ) { if ( d.empty() || d.front() != o.res2 ) return false; d.pop_front(); return true; }
            return d.empty();
        case POP_B:
            if ( o.res ) { if ( d.empty() || d.back() != o.res2 ) return false; d.pop_back(); return true; }
            return d.empty();
        case EMPTY: return ( d.empty() ? 1 : 0 ) == o.res;
        case SIZE: return long( d.size()) == o.res;
        case CLEAR: d.clear(); return true;
        }
        return false;
    }
    std::string key() const { std::string r; for ( long v : d ) { r += std::to_string( v ); r += ','; } return r; }
};

// max-priority queue over priorities; payload identity = arg2 (so ties are distinguishable: any of the maximal ones may be popped)
struct PQSpec {
    std::multiset<std::pair<long, long>> s; long cap = -1;
    bool step( cdsmc::Op const& o )
    {
        switch ( o.op ) {
        case PQ_PUSH:
            if ( o.res ) { if ( cap >= 0 && long( s.size()) >= cap ) return false; s.insert( { o.arg, o.arg2 } ); return true; }
            return cap >= 0 && long( s.size()) >= cap;
        case PQ_POP:
            if ( o.res ) {
                if ( s.empty()) return false;
                long top = s.rbegin()->first;
                if ( o.res2 != top ) return false;      // res2 = priority popped
                auto it = s.find( { o.res2, o.arg2 } );   // arg2 of a pop = identity returned (filled by the adapter); fall back to any with that priority
                if ( it == s.end()) it = s.lower_bound( { o.res2, -1000000 } );
                if ( it == s.end() || it->first != o.res2 ) return false;
                s.erase( it ); return true;
            }
            return s.empty();
        case EMPTY: return ( s.empty() ? 1 : 0 ) == o.res;
        case SIZE: return long( s.size()) == o.res;
        case CLEAR: s.clear(); return true;
        }
        return false;
    }
    std::string key() const { std::string r; for ( auto const& v : s ) { r += std::to_string( v.first ); r += ':'; r += std::to_string( v.second ); r += ','; } return r; }
};

// set / map: key -> value. Values: INS k stores value b (default k*10); UPD_INS k,b stores b.
// Results: INS/EMPLACE: res = inserted. DEL/UNLINK/EXTRACT: res = removed (EXTRACT: res2 = value seen). HAS: res = found.
// GET/FIND_F: res = found, res2 = value seen. UPD_INS: res = 1, res2 = 1 if inserted / 0 if updated. UPD_NOINS: res = found (then updated).
// EXT_MIN / EXT_MAX: res = got one, res2 = key (window rule is checked separately; here: key must be present -> removed).
struct SetSpec {
    std::map<long, long> m;
    bool map_values = false;    // compare values on reads
    bool relaxed_minmax = true; // extract_min/max: any present key accepted here; exact min/max window rule checked by the harness
    bool update_replaces = false; // update() of an existing key swaps in the new item (iterable list, Feldman) instead of keeping the old one
    bool step( cdsmc::Op const& o )
    {
        auto it = m.find( o.arg );
        switch ( o.op ) {
        case INS: case EMPLACE: case INS_F:
            if ( o.res ) { if ( it != m.end()) return false; m[o.arg] = o.arg2; return true; }
            return it != m.end();
        case DEL: case DEL_F:
            if ( o.res ) { if ( it == m.end()) return false; if ( map_values && o.op == DEL_F && o.res2 != it->second ) return false; m.erase( it ); return true; }
            return it == m.end();
        case UNLINK:    // unlink( item ): removes exactly the item whose identity value is arg2; fails if the key is absent or maps to another item
            if ( o.res ) { if ( it == m.end() || ( map_values && it->second != o.arg2 )) return false; m.erase( it ); return true; }
            return it == m.end() || ( map_values && it->second != o.arg2 );
        case EXTRACT:
            if ( o.res ) { if ( it == m.end()) return false; if ( map_values && o.res2 != it->second ) return false; m.erase( it ); return true; }
            return it == m.end();
        case HAS:
            return ( it != m.end() ? 1 : 0 ) == o.res;
        case GET: case FIND_F:
            if ( o.res ) { if ( it == m.end()) return false; return !map_values || o.res2 == it->second; }
            return it == m.end();
        case UPD_INS:
            if ( !o.res ) return false;
            if ( o.res2 ) { if ( it != m.end()) return false; m[o.arg] = o.arg2; return true; }
            if ( it == m.end()) return false; if ( update_replaces ) it->second = o.arg2; return true;
        case UPD_NOINS:
            if ( o.res ) { if ( it == m.end()) return false; if ( update_replaces ) it->second = o.arg2; return true; }
            return it == m.end();
        case EXT_MIN: case EXT_MAX:
            if ( o.res ) {
                auto k = m.find( o.res2 );
                if ( k == m.end()) return false;
                if ( !relaxed_minmax ) {
                    if ( o.op == EXT_MIN && k != m.begin()) return false;
                    if ( o.op == EXT_MAX && std::next( k ) != m.end()) return false;
                }
                m.erase( k ); return true;
            }
            return m.empty();
        case EMPTY: return ( m.empty() ? 1 : 0 ) == o.res;
        case SIZE: return long( m.size()) == o.res;
        case CLEAR: m.clear(); return true;
        case ITER: case RITER: return true;     // not atomic: checked by the interval rules of the harness
        }
        return false;
    }
    std::string key() const { std::string r; for ( auto const& v : m ) { r += std::to_string( v.first ); r += ':'; r += std::to_string( v.second ); r += ','; } return r; }
};

// ---- the generic run ---------------------------------------------------------------------------------------------
// Adapter requirements:
//   explicit Adapter( Cfg )            (cheap; real construction in setup())
//   void setup();                      controller: SMR singleton(s), container, controller attach
//   void teardown();                   controller: destroy container, detach, destroy singletons
//   void thread_begin( int t ); void thread_end( int t );     worker attach / detach (prologue / epilogue)
//   void apply( int t, cdsmc::History& h, POp const& op );    perform one operation: h.call(...), container call, h.ret(...)
//   void drain( cdsmc::History& h );   controller: empty the container through its API, recording sequential ops
//   void quiescent( cdsmc::Result& r, cdsmc::History const& h );   post-conditions on the quiescent structure (may call r.fail)
//   Spec spec() const;                 initial sequential specification
//   static const char* property();     property id owning linearizability failures
template <class Adapter>
class ContRun: public cdsmc::Run
{
    Program prog_;
    Adapter ad_;
    cdsmc::History h_;
    bool quiescent_ok_ = true;
    cdsmc::Result early_;

public:
    template <class Cfg>
    ContRun( Program const& p, Cfg const& cfg ): prog_( p ), ad_( cfg ) {}

    int nthreads() const override { return int( prog_.threads.size()); }

    void setup() override
    {
        ad_.setup();
        for ( POp const& o : prog_.prefix ) ad_.apply( -1, h_, o );
    }
    void prologue( int t ) override { ad_.thread_begin( t ); }
    void thread( int t ) override { for ( POp const& o : prog_.threads[t] ) ad_.apply( t, h_, o ); }
    void epilogue( int t ) override { ad_.thread_end( t ); }
    void teardown() override
    {
        ad_.quiescent( early_, h_ );
        if ( prog_.drain ) ad_.drain( h_ );
        ad_.teardown();
    }
    void check( cdsmc::Result& r ) override
    {
        r.description = h_.str( op_event );
        r.outcome_hash = h_.outcome_hash();
        r.nontrivial = h_.has_overlap();
        r.aux[0] = 1;       // quiescent states checked
        if ( early_.failed ) { if ( sig_enabled( early_.signature )) r.fail( early_.signature, early_.message ); if ( r.failed ) return; }
        ad_.post_check( r, h_ );
        if ( r.failed ) return;
        std::string lp = std::string( Adapter::property()) + ":not-linearizable";
        if ( sig_enabled( lp ) && !cdsmc::linearizable( h_, ad_.spec()))
            r.fail( lp, "history is not linearizable to the sequential specification" );
    }
};

template <class Adapter, class Cfg>
inline cdsmc::Scenario make_scenario( std::string const& id, Program const& p, Cfg const& cfg, int tier = 0, int bq = -1, int bt = -1 )
{
    cdsmc::Scenario s;
    s.id = id + "/" + p.name + " " + prog_str( p );
    s.make = [p, cfg]() { return std::unique_ptr<cdsmc::Run>( new ContRun<Adapter>( p, cfg )); };
    s.tier = tier; s.bound_quick = bq; s.bound_thorough = bt;
    return s;
}

// ---- program grammars -----------------------------------------------------------------------------------------------
// all sequences of length 1..maxlen over the alphabet
inline std::vector<TProg> sequences( std::vector<POp> const& alphabet, size_t maxlen )
{
    std::vector<TProg> out, cur = { TProg() };
    for ( size_t l = 1; l <= maxlen; ++l ) {
        std::vector<TProg> next;
        for ( auto const& s : cur ) for ( auto const& a : alphabet ) { TProg t = s; t.push_back( a ); next.push_back( t ); }
        out.insert( out.end(), next.begin(), next.end());
        cur = next;
    }
    return out;
}

// all unordered pairs of thread programs (thread symmetry) x prefixes
inline std::vector<Program> two_thread_programs( std::vector<TProg> const& seqs, std::vector<TProg> const& prefixes, std::string const& tag )
{
    std::vector<Program> out;
    int n = 0;
    for ( auto const& pre : prefixes )
        for ( size_t i = 0; i < seqs.size(); ++i )
            for ( size_t j = i; j < seqs.size(); ++j ) {
                Program p; p.name = tag + std::to_string( n++ ); p.prefix = pre; p.threads = { seqs[i], seqs[j] };
                out.push_back( p );
            }
    return out;
}

} // namespace vh

#endif
