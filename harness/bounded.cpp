// C07: VyukovMPMCCycleQueue is a linearizable bounded FIFO (DESIGN.md 9/C07).
#include "cont.h"
#include "seq.h"
#include "smr_holders.h"
#include <cds/container/vyukov_mpmc_cycle_queue.h>
#include <cds/intrusive/vyukov_mpmc_cycle_queue.h>

using namespace vh;
using namespace cdsmc;
namespace cc = cds::container;
namespace ci = cds::intrusive;

namespace {

struct BCfg { int nthreads; int capacity; int laps; };

template <size_t Cap> struct st_traits: public cc::vyukov_queue::traits { typedef cds::opt::v::uninitialized_static_buffer<long, Cap> buffer; typedef cds::atomicity::item_counter item_counter; };
struct dyn_traits: public cc::vyukov_queue::traits { typedef cds::atomicity::item_counter item_counter; };
struct sc_traits: public cc::vyukov_queue::traits { static constexpr bool const single_consumer = true; };
struct istat_traits: public ci::vyukov_queue::traits { typedef cds::atomicity::item_counter item_counter; };

struct BItem { long v; };

template <class Q, bool Static>
struct make_q { static Q* make( int cap ) { return new Q( size_t( cap )); } };
template <class Q>
struct make_q<Q, true> { static Q* make( int ) { return new Q; } };

// value-based queue adapter
inline long rd( long v ) { return v; }
inline long rd( Payload const& v ) { return v.read(); }

template <class Q, bool Static, bool SC, bool Counted = true>
struct VAdapter
{
    typedef typename Q::value_type V;
    BCfg cfg; std::unique_ptr<Q> q;
    explicit VAdapter( BCfg c ): cfg( c ) {}
    static const char* property() { return "C07"; }
    void setup()
    {
        q.reset( make_q<Q, Static>::make( cfg.capacity ));
        // cycle the ring so that the explored window works on lap numbers > 0
        for ( int l = 0; l < cfg.laps * cfg.capacity + cfg.laps; ++l ) { V v( 7000 + l ); q->enqueue( v ); V d; q->dequeue( d ); }
    }
    void teardown() { q.reset(); }
    void thread_begin( int ) {}
    void thread_end( int ) {}
    template <bool S = SC> typename std::enable_if<S>::type sc_op( int t, History& h, POp const& op )
    {
        if ( op.op == FRONT ) { int i = h.call( t, FRONT ); V* p = q->front(); h.ret( i, p != nullptr, p ? rd( *p ) : 0 ); }
        else { int i = h.call( t, POP_FRONT ); bool ok = q->pop_front(); h.ret( i, ok, ok ? -1 : 0 ); }    // -1: removes the oldest item, whatever it is
    }
    template <bool S = SC> typename std::enable_if<!S>::type sc_op( int, History&, POp const& ) {}
    void apply( int t, History& h, POp const& op )
    {
        switch ( op.op ) {
        case ENQ: { int i = h.call( t, ENQ, op.a ); V pl( op.a ); bool ok = ( op.a & 1 ) ? q->enqueue( pl ) : q->enqueue( std::move( pl )); h.ret( i, ok ); break; }
        case DEQ: { int i = h.call( t, DEQ ); V v; bool ok = q->dequeue( v ); h.ret( i, ok, ok ? rd( v ) : 0 ); break; }
        case FRONT: case POP_FRONT: sc_op( t, h, op ); break;
        case EMPTY: { int i = h.call( t, EMPTY ); h.ret( i, q->empty()); break; }
        default: break;
        }
    }
    void drain( History& h )
    {
        if ( Counted ) { int i = h.call( -1, SIZE ); h.ret( i, long( q->size())); }
        for ( int n = 0; n < 64; ++n ) { int i = h.call( -1, DEQ ); V v; bool ok = q->dequeue( v ); h.ret( i, ok, ok ? rd( v ) : 0 ); if ( !ok ) break; }
        int i = h.call( -1, EMPTY ); h.ret( i, q->empty());
    }
    void quiescent( Result&, History const& ) {}
    void post_check( Result&, History const& ) {}
    FifoSpec spec() const { FifoSpec s; s.cap = cfg.capacity; return s; }
};

// intrusive variant: stores pointers to items owned by the harness
template <class Q>
struct IAdapter
{
    BCfg cfg; std::unique_ptr<Q> q; BItem items[64];
    explicit IAdapter( BCfg c ): cfg( c ) { for ( int i = 0; i < 64; ++i ) items[i].v = i; }
    static const char* property() { return "C07"; }
    void setup()
    {
        q.reset( new Q( size_t( cfg.capacity )));
        for ( int l = 0; l < cfg.laps * cfg.capacity + cfg.laps; ++l ) { q->enqueue( items[63] ); q->dequeue(); }
    }
    void teardown() { q.reset(); }
    void thread_begin( int ) {}
    void thread_end( int ) {}
    void apply( int t, History& h, POp const& op )
    {
        switch ( op.op ) {
        case ENQ: { int i = h.call( t, ENQ, op.a ); bool ok = q->enqueue( items[op.a & 63] ); h.ret( i, ok ); break; }
        case DEQ: { int i = h.call( t, DEQ ); BItem* p = q->dequeue(); h.ret( i, p != nullptr, p ? p->v : 0 ); break; }
        default: break;
        }
    }
    void drain( History& h )
    {
        for ( int n = 0; n < 64; ++n ) { int i = h.call( -1, DEQ ); BItem* p = q->dequeue(); h.ret( i, p != nullptr, p ? p->v : 0 ); if ( !p ) break; }
        int i = h.call( -1, EMPTY ); h.ret( i, q->empty());
    }
    void quiescent( Result&, History const& ) {}
    void post_check( Result&, History const& ) {}
    FifoSpec spec() const { FifoSpec s; s.cap = cfg.capacity; return s; }
};

std::vector<Scenario> g_scen;

template <class Adapter>
void add_family( std::string const& tname, int cap, int laps, int step )
{
    std::string base = tname + "-cap" + std::to_string( cap ) + "-lap" + std::to_string( laps );
    if ( vh::property() == "C20" ) {
        // conformance with a bounded std::deque: all sequences over {enqueue (both overloads), dequeue, empty} incl. enqueue on a full ring
        std::vector<POp> a = { { ENQ, 1, 0 }, { ENQ, 2, 0 }, { DEQ, 0, 0 }, { EMPTY, 0, 0 } };
        TProg full; for ( int i = 0; i < cap; ++i ) full.push_back( POp{ ENQ, 40 + i, 0 } );
        add_seq_generic<Adapter, BCfg>( g_scen, base, BCfg{ 1, cap, laps }, a, { TProg(), full }, 6, 8 );
        return;
    }
    std::vector<POp> alpha = { { ENQ, 0, 0 }, { DEQ, 0, 0 } };
    std::vector<TProg> seqs = sequences( alpha, 2 );
    std::vector<TProg> prefixes;
    for ( int fill : { 0, 1, cap - 1, cap } ) {
        if ( fill < 0 ) continue;
        TProg p; for ( int i = 0; i < fill; ++i ) p.push_back( POp{ ENQ, 40 + i, 0 } );
        bool dup = false; for ( auto const& q : prefixes ) if ( q.size() == p.size()) dup = true;
        if ( !dup ) prefixes.push_back( p );
    }
    std::vector<Program> progs = two_thread_programs( seqs, prefixes, "g" );
    for ( auto& p : progs ) { long v = 1; for ( auto& t : p.threads ) for ( auto& o : t ) if ( o.op == ENQ ) o.a = v++; }
    int n = 0;
    for ( auto const& p : progs )
        g_scen.push_back( make_scenario<Adapter>( base, p, BCfg{ 2, cap, laps }, ( n++ % step ) == 0 ? 0 : 1, 3, 6 ));
    // 3 threads: producer claimed-but-unpublished vs consumers, and the symmetric full case
    {
        Program p; p.name = "2enq-1deq"; p.threads = { { { ENQ, 1, 0 } }, { { ENQ, 2, 0 } }, { { DEQ, 0, 0 }, { DEQ, 0, 0 } } };
        g_scen.push_back( make_scenario<Adapter>( base, p, BCfg{ 3, cap, laps }, step == 1 ? 0 : 1, 2, 3 ));
        Program f; f.name = "full-2deq-1enq";
        for ( int i = 0; i < cap; ++i ) f.prefix.push_back( POp{ ENQ, 40 + i, 0 } );
        f.threads = { { { DEQ, 0, 0 } }, { { DEQ, 0, 0 } }, { { ENQ, 1, 0 }, { ENQ, 2, 0 } } };
        g_scen.push_back( make_scenario<Adapter>( base, f, BCfg{ 3, cap, laps }, step == 1 ? 0 : 1, 2, 3 ));
        Program w; w.name = "wrap-3"; for ( int i = 0; i < cap - 1; ++i ) w.prefix.push_back( POp{ ENQ, 40 + i, 0 } );
        w.threads = { { { ENQ, 1, 0 }, { DEQ, 0, 0 } }, { { DEQ, 0, 0 }, { ENQ, 2, 0 } }, { { ENQ, 3, 0 } } };
        g_scen.push_back( make_scenario<Adapter>( base, w, BCfg{ 3, cap, laps }, 1, 2, 3 ));
    }
}

template <class Adapter>
void add_sc_family( std::string const& tname, int cap, int laps )
{
    // single consumer: thread 0 is the only consumer and uses front()/pop_front(); the others produce
    std::string base = tname + "-cap" + std::to_string( cap ) + "-lap" + std::to_string( laps );
    if ( vh::property() == "C20" ) {
        std::vector<POp> a = { { ENQ, 1, 0 }, { ENQ, 2, 0 }, { DEQ, 0, 0 }, { FRONT, 0, 0 }, { POP_FRONT, 0, 0 }, { EMPTY, 0, 0 } };
        TProg full; for ( int i = 0; i < cap; ++i ) full.push_back( POp{ ENQ, 40 + i, 0 } );
        add_seq_generic<Adapter, BCfg>( g_scen, base, BCfg{ 1, cap, laps }, a, { TProg(), full }, 5, 7 );
        return;
    }
    std::vector<TProg> consumers = { { { FRONT, 0, 0 }, { POP_FRONT, 0, 0 } }, { { POP_FRONT, 0, 0 }, { FRONT, 0, 0 } }, { { FRONT, 0, 0 }, { POP_FRONT, 0, 0 }, { POP_FRONT, 0, 0 } }, { { EMPTY, 0, 0 }, { POP_FRONT, 0, 0 } } };
    std::vector<TProg> producers = { { { ENQ, 1, 0 } }, { { ENQ, 1, 0 }, { ENQ, 2, 0 } }, { { ENQ, 1, 0 }, { ENQ, 2, 0 }, { ENQ, 3, 0 } } };
    int n = 0;
    for ( int fill : { 0, 1, cap } ) for ( auto const& c : consumers ) for ( auto const& pr : producers ) {
        Program p; p.name = "sc" + std::to_string( n++ ); for ( int i = 0; i < fill; ++i ) p.prefix.push_back( POp{ ENQ, 40 + i, 0 } );
        p.threads = { c, pr };
        g_scen.push_back( make_scenario<Adapter>( base, p, BCfg{ 2, cap, laps }, 0, 4, 7 ));
    }
    // two producers: one may have claimed the head cell without having published it while the other's push is complete
    int k = 0;
    for ( auto const& c : std::vector<TProg>{ { { POP_FRONT, 0, 0 }, { POP_FRONT, 0, 0 } }, { { FRONT, 0, 0 }, { POP_FRONT, 0, 0 } }, { { EMPTY, 0, 0 }, { FRONT, 0, 0 } }, { { FRONT, 0, 0 }, { FRONT, 0, 0 } } } )
        for ( int fill : { 0, 1 } ) {
            Program p; p.name = "sc-2producers" + std::to_string( k++ ); for ( int i = 0; i < fill; ++i ) p.prefix.push_back( POp{ ENQ, 40 + i, 0 } );
            p.threads = { c, { { ENQ, 1, 0 } }, { { ENQ, 2, 0 } } };
            g_scen.push_back( make_scenario<Adapter>( base, p, BCfg{ 3, cap, laps }, 0, 2, 3 ));
        }
}

} // namespace

int main( int argc, char** argv )
{
    vh::take_property( argc, argv, "C07" );
    cds::Initialize();

    typedef cc::VyukovMPMCCycleQueue<Payload, dyn_traits> vq_dyn;
    typedef cc::VyukovMPMCCycleQueue<long, st_traits<2>> vq_st2;
    typedef cc::VyukovMPMCCycleQueue<long, st_traits<4>> vq_st4;
    typedef cc::VyukovMPMCCycleQueue<Payload, sc_traits> vq_sc;
    typedef ci::VyukovMPMCCycleQueue<BItem, istat_traits> ivq;

    add_family<VAdapter<vq_dyn, false, false>>( "Vyukov-dynamic", 2, 0, 1 );
    add_family<VAdapter<vq_dyn, false, false>>( "Vyukov-dynamic", 2, 3, 1 );
    add_family<VAdapter<vq_dyn, false, false>>( "Vyukov-dynamic", 4, 1, 2 );
    add_family<VAdapter<vq_dyn, false, false>>( "Vyukov-dynamic", 8, 1, 6 );
    add_family<VAdapter<vq_st2, true, false>>( "Vyukov-static", 2, 1, 2 );
    add_family<VAdapter<vq_st4, true, false>>( "Vyukov-static", 4, 2, 4 );
    add_family<IAdapter<ivq>>( "Vyukov-intrusive", 2, 1, 1 );
    add_family<IAdapter<ivq>>( "Vyukov-intrusive", 4, 2, 3 );
    add_sc_family<VAdapter<vq_sc, false, true, false>>( "Vyukov-single-consumer", 2, 1 );
    add_sc_family<VAdapter<vq_sc, false, true, false>>( "Vyukov-single-consumer", 4, 0 );

    Options o; o.property = vh::property().c_str();
    o.default_bound_quick = 3; o.default_bound_thorough = 4;
    return main_run( argc, argv, g_scen, o );
}
