// seqmc (DESIGN.md 5): exhaustive single-threaded conformance of the real API against the sequential reference model (C20).
// Every sequence of operations up to a depth, from several start states, is replayed on a fresh container; after every operation
// the result, the functor accounting, size()/empty(), the traversal and the membership of every key of the universe are compared
// with the model. A "scenario" of the engine is one (family, start state, first operation) subtree, explored inside Run::setup()
// with the scheduler idle; the number of sequences and operations is reported through the aux counters.
#ifndef VERIF_HARNESS_SEQ_H
#define VERIF_HARNESS_SEQ_H

#include "sets.h"

namespace vh {

// optional parts of an adapter
template <class A> inline auto seq_set_mode( A& a, int ) -> decltype( a.seq_mode = true, void()) { a.seq_mode = true; }
template <class A> inline void seq_set_mode( A&, long ) {}
template <class A> inline auto seq_step_error( A& a, int ) -> decltype( std::string( a.q_err )) { return a.q_err; }
template <class A> inline std::string seq_step_error( A&, long ) { return std::string(); }
template <class A, class = void> struct seq_observes: std::false_type {};
template <class A> struct seq_observes<A, typename std::enable_if<A::drain_observes::value>::type>: std::true_type {};

template <class Adapter, class Cfg>
class SeqRun: public cdsmc::Run
{
    Cfg cfg_; std::vector<POp> alpha_; TProg start_; POp first_; int depth_;
    uint64_t seqs_ = 0, ops_ = 0;
    std::string fail_sig_, fail_msg_, last_hist_;

    bool run_one( TProg const& seq )
    {
        Adapter ad( cfg_ ); seq_set_mode( ad, 0 );
        ad.setup();
        cdsmc::History h; auto spec = ad.spec();
        size_t checked = 0; std::string err;
        auto verify = [&]() {
            while ( checked < h.ops.size()) {
                if ( !spec.step( h.ops[checked] )) { err = "operation " + op_event( h.ops[checked], false ) + " " + op_event( h.ops[checked], true ) + " disagrees with the reference model (model state {" + spec.key() + "} before the call)"; return false; }
                ++checked;
            }
            return true;
        };
        for ( POp const& o : seq ) {
            std::string before = spec.key();
            ad.apply( -1, h, o ); ++ops_;
            if ( !verify()) break;
            // observe: membership and value of every key, size(), empty(), traversal
            if ( seq_observes<Adapter>::value ) { ad.drain( h ); if ( !verify()) break; }
            cdsmc::Result r; ad.quiescent( r, h );
            if ( r.failed ) { err = r.message; break; }
            err = seq_step_error( ad, 0 ); if ( !err.empty()) break;
        }
        // containers that can only be observed by taking the items out: the drain ends the sequence
        if ( err.empty() && !seq_observes<Adapter>::value ) { ad.drain( h ); verify(); }
        ad.teardown();
        if ( err.empty()) { cdsmc::Result r; ad.post_check( r, h ); if ( r.failed ) err = r.message; }
        ++seqs_;
        if ( !err.empty()) {
            fail_sig_ = "C20:model-mismatch";
            std::string s; for ( auto const& o : seq ) { if ( !s.empty()) s += ","; s += op_name( o.op ); s += std::to_string( o.a ); }
            fail_msg_ = "sequence [" + s + "]: " + err;
            last_hist_ = h.str( op_event );
            return false;
        }
        return true;
    }
    bool dfs( TProg& cur, int remaining )
    {
        if ( !run_one( cur )) return false;
        if ( remaining == 0 ) return true;
        for ( POp const& a : alpha_ ) { cur.push_back( a ); bool ok = dfs( cur, remaining - 1 ); cur.pop_back(); if ( !ok ) return false; }
        return true;
    }
public:
    SeqRun( Cfg c, std::vector<POp> alpha, TProg start, POp first, int depth ): cfg_( c ), alpha_( alpha ), start_( start ), first_( first ), depth_( depth ) {}
    int nthreads() const override { return 1; }
    void setup() override { TProg cur = start_; cur.push_back( first_ ); dfs( cur, depth_ - 1 ); }
    void thread( int ) override {}
    void check( cdsmc::Result& r ) override
    {
        r.description = "sequences " + std::to_string( seqs_ ) + ( last_hist_.empty() ? "" : " | " + last_hist_ );
        r.outcome_hash = cdsmc::hash_str( std::to_string( seqs_ ) + fail_msg_ ); r.nontrivial = true;
        r.aux[1] = seqs_; r.aux[2] = ops_;
        if ( !fail_sig_.empty()) r.fail( fail_sig_, fail_msg_ );
    }
};

// alphabet: every operation the container supports x keys; INS_F / UPD use values different from INS so that values tell items apart
template <class Caps>
inline std::vector<POp> seq_alphabet( std::vector<int> const& keys, bool with_clear )
{
    std::vector<POp> a;
    for ( int k : keys ) {
        a.push_back( POp{ INS, k, 0 } );
        if ( Caps::has_ins_f::value ) a.push_back( POp{ INS_F, k, 0 } );
        if ( Caps::has_emplace::value ) a.push_back( POp{ EMPLACE, k, 0 } );
        if ( Caps::has_erase::value ) a.push_back( POp{ DEL, k, 0 } );
        if ( Caps::has_del_f::value ) a.push_back( POp{ DEL_F, k, 0 } );
        if ( Caps::has_find_f::value ) a.push_back( POp{ FIND_F, k, 0 } );
        if ( Caps::has_update::value ) { a.push_back( POp{ UPD_INS, k, 0 } ); a.push_back( POp{ UPD_NOINS, k, k * 10L + 7 } ); }
        if ( Caps::has_extract::value ) a.push_back( POp{ EXTRACT, k, 0 } );
        if ( Caps::has_get::value ) a.push_back( POp{ GET, k, 0 } );
        if ( Caps::has_unlink::value ) a.push_back( POp{ UNLINK, k, 0 } );
    }
    if ( Caps::has_minmax::value ) { a.push_back( POp{ EXT_MIN, 0, 0 } ); a.push_back( POp{ EXT_MAX, 0, 0 } ); }
    if ( with_clear ) a.push_back( POp{ CLEAR, 0, 0 } );
    return a;
}

// one engine scenario per (start state, first operation)
template <class Adapter, class Cfg>
inline void add_seq_generic( std::vector<cdsmc::Scenario>& out, std::string const& base, Cfg cfg, std::vector<POp> alpha, std::vector<TProg> starts, int depth_quick, int depth_thorough )
{
    int si = 0;
    for ( auto const& st : starts ) {
        for ( auto const& f : alpha ) {
            for ( int tier = 0; tier < 2; ++tier ) {
                int depth = tier == 0 ? depth_quick : depth_thorough;
                if ( tier == 1 && depth_thorough == depth_quick ) continue;
                cdsmc::Scenario s;
                s.id = base + "/seq-start" + std::to_string( si ) + "-" + op_name( f.op ) + std::to_string( f.a ) + "-depth" + std::to_string( depth );
                s.make = [cfg, alpha, st, f, depth]() { return std::unique_ptr<cdsmc::Run>( new SeqRun<Adapter, Cfg>( cfg, alpha, st, f, depth )); };
                s.tier = tier; s.bound_quick = 0; s.bound_thorough = 0;
                out.push_back( s );
            }
        }
        ++si;
    }
}

template <class Adapter, class Caps>
inline void add_seq_scenarios( std::vector<cdsmc::Scenario>& out, std::string const& base, std::vector<int> keys, std::vector<int> universe, std::vector<TProg> starts, int depth_quick, int depth_thorough, bool with_clear = true )
{
    add_seq_generic<Adapter, SetCfg>( out, base, SetCfg( 1, universe ), seq_alphabet<Caps>( keys, with_clear ), starts, depth_quick, depth_thorough );
}

} // namespace vh

#endif
