// Engine self-test: toy races with known schedule counts and known outcomes (DESIGN 13).
#include <cds_verif/atomic.h>
#include <cds_verif/sync.h>
#include <cds_verif/cdsmc.h>
#include <cds_verif/lin.h>
#include <cstdio>

using namespace cdsmc;
namespace va = cds_verif::atomics;

// 1. lost update: two threads do x = x + 1 non-atomically. Violation needs 1 preemption.
struct LostUpdate: Run {
    va::atomic<int> x{0};
    int n; bool expect_ok;
    LostUpdate( int n_, bool ok ): n( n_ ), expect_ok( ok ) {}
    int nthreads() const override { return n; }
    void thread( int ) override { int v = x.load( va::memory_order_relaxed ); x.store( v + 1, va::memory_order_relaxed ); }
    void check( Result& r ) override
    {
        int v = x.load();
        r.outcome_hash = uint64_t( v ); r.nontrivial = v != n; r.description = "x=" + std::to_string( v );
        if ( !expect_ok && v != n ) r.fail( "lost-update", "x=" + std::to_string( v ));
    }
};

// 2. fetch_add version: never fails
struct AtomicInc: Run {
    va::atomic<int> x{0};
    int nthreads() const override { return 3; }
    void thread( int ) override { x.fetch_add( 1 ); x.fetch_add( 1 ); }
    void check( Result& r ) override { int v = x.load(); r.outcome_hash = uint64_t( v ); if ( v != 6 ) r.fail( "atomic-inc", "x!=6" ); }
};

// 3. mutex-protected non-atomic increment + condvar hand-off
struct MutexCv: Run {
    cds_verif::mutex m; cds_verif::condition_variable cv; int data = 0; bool ready = false; int seen = -1;
    int nthreads() const override { return 2; }
    void thread( int t ) override
    {
        if ( t == 0 ) { std::unique_lock<cds_verif::mutex> l( m ); data = 42; ready = true; l.unlock(); cv.notify_one(); }
        else { std::unique_lock<cds_verif::mutex> l( m ); while ( !ready ) cv.wait( l ); seen = data; }
    }
    void check( Result& r ) override { r.outcome_hash = uint64_t( seen ); if ( seen != 42 ) r.fail( "mutexcv", "seen!=42" ); }
};

// 4. spin-wait through a back-off report: consumer spins until flag set
struct SpinWait: Run {
    va::atomic<int> flag{0}; int data = 0, seen = -1;
    int nthreads() const override { return 2; }
    void thread( int t ) override
    {
        if ( t == 0 ) { data = 7; flag.store( 1, va::memory_order_release ); }
        else { while ( !flag.load( va::memory_order_acquire )) cds_verif::backoff_report(); seen = data; }
    }
    void check( Result& r ) override { r.outcome_hash = uint64_t( seen ); if ( seen != 7 ) r.fail( "spinwait", "seen!=7" ); }
};

// 5. deadlock: AB-BA
struct Deadlock: Run {
    cds_verif::mutex a, b;
    int nthreads() const override { return 2; }
    void thread( int t ) override
    {
        if ( t == 0 ) { a.lock(); b.lock(); b.unlock(); a.unlock(); }
        else { b.lock(); a.lock(); a.unlock(); b.unlock(); }
    }
};

// 6. message passing with a relaxed flag: HB tracker must flag the payload race (run with --hb)
struct RelaxedPublish: Run {
    va::atomic<int> flag{0}; int payload = 0; bool rel;
    explicit RelaxedPublish( bool r ): rel( r ) {}
    int nthreads() const override { return 2; }
    void thread( int t ) override
    {
        if ( t == 0 ) { cds_verif::hb_access( &payload, true, "write" ); payload = 1; flag.store( 1, rel ? va::memory_order_release : va::memory_order_relaxed ); }
        else if ( flag.load( va::memory_order_acquire )) { cds_verif::hb_access( &payload, false, "read" ); }
    }
};

// 7. environment choice
struct Choose: Run {
    int got = -1;
    int nthreads() const override { return 1; }
    void thread( int ) override { got = int( cds_verif::choose( 3 )) * 10 + int( cds_verif::choose( 2 )); }
    void check( Result& r ) override { r.outcome_hash = uint64_t( got ); r.description = std::to_string( got ); }
};

int main( int argc, char** argv )
{
    std::vector<Scenario> s;
    auto add = [&]( const char* id, std::function<std::unique_ptr<Run>()> mk ) { Scenario sc; sc.id = id; sc.make = mk; s.push_back( sc ); };
    add( "lost2-count", [] { return std::unique_ptr<Run>( new LostUpdate( 2, true )); } );
    add( "lost3-count", [] { return std::unique_ptr<Run>( new LostUpdate( 3, true )); } );
    add( "lost2-detect", [] { return std::unique_ptr<Run>( new LostUpdate( 2, false )); } );
    add( "atomic-inc", [] { return std::unique_ptr<Run>( new AtomicInc ); } );
    add( "mutexcv", [] { return std::unique_ptr<Run>( new MutexCv ); } );
    add( "spinwait", [] { return std::unique_ptr<Run>( new SpinWait ); } );
    add( "deadlock", [] { return std::unique_ptr<Run>( new Deadlock ); } );
    add( "relaxed-publish", [] { return std::unique_ptr<Run>( new RelaxedPublish( false )); } );
    add( "release-publish", [] { return std::unique_ptr<Run>( new RelaxedPublish( true )); } );
    add( "choose", [] { return std::unique_ptr<Run>( new Choose ); } );
    Options o; o.property = "SELFTEST";
    return main_run( argc, argv, s, o );
}
