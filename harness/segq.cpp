// C08: SegmentedQueue conserves items and bounds reordering by the quasi factor (DESIGN.md 9/C08)
#include "cont.h"
#include "smr_holders.h"
#include <cds/container/segmented_queue.h>
#include <cds/intrusive/segmented_queue.h>
#include <sstream>
#include <map>
#include <set>

using namespace vh;
using namespace cdsmc;
namespace cc = cds::container;
namespace ci = cds::intrusive;

namespace {

// ---- permutation generators the harness decides -------------------------------------------------------------------------------
// cyclic order from a start cell; the start cell is an environment choice of the explorer (every start is explored, a start other than
// cell 0 costs one deviation), so that both "first free cell" and "any other cell" behaviours of the random generators are covered
template <bool Choose, bool Descending>
class verif_permutation
{
public:
    typedef int integer_type;
private:
    int cur_, start_, n_, done_;
public:
    explicit verif_permutation( size_t n ): cur_( 0 ), start_( 0 ), n_( int( n )), done_( 0 ) { reset(); }
    operator integer_type() const { return Descending ? ( start_ - done_ + n_ * 2 ) % n_ : ( start_ + done_ ) % n_; }
    bool next() { return ++done_ < n_; }
    void reset() { done_ = 0; start_ = Choose ? int( cds_verif::choose( unsigned( n_ ))) : ( Descending ? n_ - 1 : 0 ); (void) cur_; }
};

struct Cfg { int nthreads; int quasi; };

// one enqueue / dequeue event
struct Ev { int thread; bool enq; long val; bool ok; uint64_t inv = 0, ret = 0; };

template <class Q> struct QOps;

// container queue of Payload values
template <class GC, class Tr>
struct QOps< cc::SegmentedQueue<GC, Payload, Tr> > {
    typedef cc::SegmentedQueue<GC, Payload, Tr> Q;
    static bool enq( Q& q, long v, int flip ) { if ( flip & 1 ) return q.enqueue( Payload( v )); Payload p( v ); return q.enqueue( p ); }
    static bool deq( Q& q, long& v ) { Payload p; bool ok = q.dequeue( p ); if ( ok ) v = p.read(); return ok; }
    static void begin() {}
};

// intrusive queue: the harness owns the items
struct IItem { long v; bool disposed = false; explicit IItem( long x ): v( x ) {} };
struct IArena { std::vector<IItem*> all; void reset() { for ( auto* p : all ) delete p; all.clear(); } };
IArena g_arena;
struct idisposer { void operator()( IItem* p ) const { p->disposed = true; } };
template <class GC, class Tr>
struct QOps< ci::SegmentedQueue<GC, IItem, Tr> > {
    typedef ci::SegmentedQueue<GC, IItem, Tr> Q;
    static bool enq( Q& q, long v, int ) { IItem* p = new IItem( v ); g_arena.all.push_back( p ); return q.enqueue( *p ); }
    static bool deq( Q& q, long& v ) { IItem* p = q.dequeue(); if ( p ) v = p->v; return p != nullptr; }
    static void begin() { g_arena.reset(); }
};

struct SPOp { bool enq; long v; };
typedef std::vector<SPOp> SProg;
struct SProgram { std::string name; SProg prefix; std::vector<SProg> threads; };

template <class Q, class Smr>
class SegRun: public Run
{
    SProgram prog_; Cfg cfg_;
    std::unique_ptr<Smr> smr_; std::unique_ptr<Q> q_;
    std::vector<Ev> ev_;
    std::ostringstream log_;
    std::string sig_, msg_;
    size_t size_at_q_ = 0; bool empty_at_q_ = false;

    void fail( std::string const& s, std::string const& m ) { if ( sig_.empty()) { sig_ = s; msg_ = m; } }

    void do_op( int t, SPOp const& o, int n )
    {
        ev_.emplace_back(); size_t idx = ev_.size() - 1;
        { Ev& e = ev_[idx]; e.thread = t; e.enq = o.enq; e.val = o.v; e.ok = false; }
        cds_verif::stamp_inv( &ev_[idx].inv );
        bool ok; long v = o.v;
        if ( o.enq ) ok = QOps<Q>::enq( *q_, o.v, n );
        else { v = 0; ok = QOps<Q>::deq( *q_, v ); }
        Ev& e = ev_[idx];
        e.ok = ok; e.val = v; e.ret = cds_verif::stamp();
        log_ << " t" << t << ( o.enq ? ":enq(" : ":deq=" ) << ( o.enq ? std::to_string( o.v ) + ")" + ( ok ? "" : "!" ) : ( ok ? std::to_string( v ) : std::string( "empty" )));
    }
public:
    SegRun( SProgram const& p, Cfg c ): prog_( p ), cfg_( c ) { ev_.reserve( 128 ); }
    int nthreads() const override { return int( prog_.threads.size()); }
    void setup() override
    {
        QOps<Q>::begin();
        smr_.reset( new Smr( cfg_.nthreads + 1 )); attach();
        q_.reset( new Q( size_t( cfg_.quasi )));
        int n = 0;
        for ( auto const& o : prog_.prefix ) do_op( -1, o, n++ );
    }
    void prologue( int ) override { attach(); }
    void epilogue( int ) override { detach(); }
    void thread( int t ) override { int n = t; for ( auto const& o : prog_.threads[t] ) do_op( t, o, n++ ); }
    void teardown() override
    {
        size_at_q_ = q_->size(); empty_at_q_ = q_->empty();
        // drain: what is left must come out
        for ( int i = 0; i < 64; ++i ) { do_op( -1, SPOp{ false, 0 }, 0 ); if ( !ev_.back().ok ) break; }
        q_.reset(); detach(); smr_.reset();
    }
    void check( Result& r ) override
    {
        r.description = "qf" + std::to_string( cfg_.quasi ) + log_.str();
        r.outcome_hash = hash_str( log_.str());
        bool nt = false;
        for ( size_t i = 0; i < ev_.size(); ++i ) for ( size_t j = i + 1; j < ev_.size(); ++j )
            if ( ev_[i].thread != ev_[j].thread && ev_[i].inv < ev_[j].ret && ev_[j].inv < ev_[i].ret ) nt = true;
        r.nontrivial = nt;
        if ( !sig_.empty()) { r.fail( sig_, msg_ ); return; }
        size_t qf = 1; while ( qf < size_t( cfg_.quasi )) qf <<= 1; if ( qf < 2 ) qf = 2;

        // (1) conservation: every enqueued value is dequeued exactly once (the drain is part of the history), nothing else comes out
        std::map<long, int> in, out;
        std::map<long, Ev const*> enq_of, deq_of;
        size_t drain_start = ev_.size();
        for ( size_t i = 0; i < ev_.size(); ++i ) {
            Ev const& e = ev_[i];
            if ( e.enq ) { if ( !e.ok ) { r.fail( "C08:enqueue-refused", "enqueue() of an unbounded queue returned false" ); return; } ++in[e.val]; enq_of[e.val] = &e; }
            else if ( e.ok ) { ++out[e.val]; deq_of[e.val] = &e; }
        }
        (void) drain_start;
        for ( auto const& kv : out ) {
            if ( !in.count( kv.first )) { r.fail( "C08:invented", "dequeue returned value " + std::to_string( kv.first ) + " that was never enqueued" ); return; }
            if ( kv.second > 1 ) { r.fail( "C08:duplicated", "value " + std::to_string( kv.first ) + " was dequeued " + std::to_string( kv.second ) + " times" ); return; }
        }
        for ( auto const& kv : in ) if ( !out.count( kv.first )) { r.fail( "C08:lost", "value " + std::to_string( kv.first ) + " was enqueued but never comes out, not even when the quiescent queue is drained" ); return; }

        // (2) quasi-FIFO bound: when x is dequeued, fewer than qf items whose enqueue completed before x's enqueue began are still in the
        //     queue. Counted conservatively: y is certainly still in the queue if its dequeue was invoked after x's dequeue returned.
        for ( auto const& kv : deq_of ) {
            Ev const& dx = *kv.second; Ev const& ex = *enq_of[kv.first];
            size_t older_inside = 0; std::string who;
            for ( auto const& ky : deq_of ) {
                if ( ky.first == kv.first ) continue;
                Ev const& dy = *ky.second; Ev const& ey = *enq_of[ky.first];
                if ( ey.ret < ex.inv && dy.inv > dx.ret ) { ++older_inside; who += " " + std::to_string( ky.first ); }
            }
            if ( older_inside >= qf ) {
                r.fail( "C08:quasi-bound", "value " + std::to_string( kv.first ) + " was dequeued while " + std::to_string( older_inside ) + " items enqueued entirely before it were still in the queue (" + who + " ), quasi factor " + std::to_string( qf ));
                return;
            }
        }
        // (3) an empty answer: every item whose enqueue completed before the call began has been taken by a dequeue that was invoked
        //     before the call returned
        for ( Ev const& d : ev_ ) {
            if ( d.enq || d.ok ) continue;
            for ( auto const& ky : enq_of ) {
                Ev const& ey = *ky.second; Ev const& dy = *deq_of[ky.first];
                if ( ey.ret < d.inv && dy.inv > d.ret ) {
                    r.fail( "C08:spurious-empty", "dequeue() by t" + std::to_string( d.thread ) + " reported empty although value " + std::to_string( ky.first ) + " had been enqueued completely before the call and was taken only after it" );
                    return;
                }
            }
        }
        // (4) quiescent counters
        size_t left = 0; for ( Ev const& e : ev_ ) if ( !e.enq && e.ok && e.thread == -1 && &e >= &ev_[0] ) ++left;
        // items dequeued by the drain = items that were in the queue at the quiescent point (prefix dequeues by thread -1 happen before)
        size_t prefix_deq = 0; for ( auto const& o : prog_.prefix ) if ( !o.enq ) ++prefix_deq;
        size_t drained = 0; { size_t seen = 0; for ( Ev const& e : ev_ ) if ( e.thread == -1 && !e.enq ) { if ( seen++ >= prefix_deq && e.ok ) ++drained; } }
        (void) left;
        if ( size_at_q_ != drained ) { r.fail( "C08:size", "size() at the quiescent point is " + std::to_string( size_at_q_ ) + " but " + std::to_string( drained ) + " items were in the queue" ); return; }
        if ( empty_at_q_ != ( drained == 0 )) { r.fail( "C08:size", "empty() at the quiescent point disagrees with the contents" ); return; }
        r.aux[0] = 1;
    }
};

std::vector<Scenario> g_scen;

std::string pstr( SProg const& p ) { std::string s; for ( auto const& o : p ) { s += o.enq ? "e" + std::to_string( o.v ) : std::string( "d" ); } return s; }

template <class Q, class Smr>
void family( std::string const& name, int quasi, bool full, int bq, int bt, int bq3, int bt3 )
{
    auto add = [&]( SProgram p, int tier, int q, int t ) {
        Scenario s; Cfg c{ int( p.threads.size()), quasi };
        s.id = name + "-qf" + std::to_string( quasi ) + "/" + Smr::name() + "/" + p.name + " [" + pstr( p.prefix ) + "]";
        for ( auto const& th : p.threads ) s.id += "|" + pstr( th );
        s.make = [p, c]() { return std::unique_ptr<Run>( new SegRun<Q, Smr>( p, c )); };
        s.tier = tier; s.bound_quick = q; s.bound_thorough = t; g_scen.push_back( s );
    };
    // thread programs over {enqueue, dequeue}, length 1..2 (values are made unique below)
    std::vector<std::vector<int>> shapes = { { 1 }, { 0 }, { 1, 1 }, { 1, 0 }, { 0, 1 }, { 0, 0 } };
    std::vector<int> prefixes = { 0, 1, 2, 3 };      // items already in the queue; with quasi factor 2 the third one opens a second segment
    if ( !full ) { shapes = { { 1 }, { 0 }, { 1, 0 }, { 0, 0 } }; prefixes = { 0, quasi - 1, quasi + 1 }; }
    int n = 0;
    for ( int pre : prefixes ) for ( size_t i = 0; i < shapes.size(); ++i ) for ( size_t j = i; j < shapes.size(); ++j ) {
        SProgram p; p.name = "g" + std::to_string( n++ );
        long v = 1;
        for ( int k = 0; k < pre; ++k ) p.prefix.push_back( SPOp{ true, v++ } );
        for ( auto const* sh : { &shapes[i], &shapes[j] } ) { SProg t; for ( int e : *sh ) t.push_back( SPOp{ e != 0, e ? v++ : 0 } ); p.threads.push_back( t ); }
        add( p, 0, bq, bt );
    }
    // deeper and three-thread programs around the segment boundary
    auto P = [&]( std::string nm, int pre, std::vector<std::vector<int>> th, int q, int t ) {
        SProgram p; p.name = nm; long v = 1;
        for ( int k = 0; k < pre; ++k ) p.prefix.push_back( SPOp{ true, v++ } );
        for ( auto const& sh : th ) { SProg tp; for ( int e : sh ) tp.push_back( SPOp{ e != 0, e ? v++ : 0 } ); p.threads.push_back( tp ); }
        add( p, 0, q, t );
    };
    P( "fill-vs-drain", quasi - 1, { { 1, 1, 1 }, { 0, 0, 0 } }, bq, bt );
    P( "boundary-enq-enq", quasi - 1, { { 1, 1 }, { 1, 1 } }, bq, bt );
    P( "boundary-deq-deq", quasi + 1, { { 0, 0, 0 }, { 0, 0 } }, bq, bt );
    P( "3t-enq-enq-deq", quasi - 1, { { 1 }, { 1 }, { 0, 0 } }, bq3, bt3 );
    P( "3t-enq-deq-deq", quasi, { { 1, 1 }, { 0 }, { 0, 0 } }, bq3, bt3 );
    P( "3t-deq-deq-enq", quasi + 1, { { 0, 0 }, { 0, 0 }, { 1 } }, bq3, bt3 );
}

template <class Perm, class Lock> struct ctr: public cc::segmented_queue::traits { typedef Perm permutation_generator; typedef Lock lock_type; };
template <class Perm, class Lock> struct itr: public ci::segmented_queue::traits { typedef Perm permutation_generator; typedef Lock lock_type; typedef idisposer disposer; };

} // namespace

#ifndef FAMILY
#   define FAMILY 1
#endif

int main( int argc, char** argv )
{
    vh::take_property( argc, argv, "C08" );
    cds::Initialize();
    typedef verif_permutation<true, false> p_choose;
    typedef verif_permutation<false, false> p_asc;
    typedef verif_permutation<false, true> p_desc;
#if FAMILY == 1
    // quasi factor 2: the scan start of every operation is an explored choice
    typedef cc::SegmentedQueue<cds::gc::HP, Payload, ctr<p_choose, cds::sync::spin>> q2_hp;
    family<q2_hp, HpHolder<4>>( "SegmentedQueue-choose", 2, true, 2, 3, 1, 2 );
    typedef cc::SegmentedQueue<cds::gc::DHP, Payload, ctr<p_asc, cds_verif::mutex>> q2_dhp;
    family<q2_dhp, DhpHolder>( "SegmentedQueue-asc-mutex", 2, false, 2, 3, 1, 2 );
#elif FAMILY == 2
    // quasi factor 4 (and 3, rounded up to 4): ascending and descending scans, so that enqueuers and dequeuers meet from both ends
    typedef cc::SegmentedQueue<cds::gc::HP, Payload, ctr<p_asc, cds::sync::spin>> q4a;
    typedef cc::SegmentedQueue<cds::gc::HP, Payload, ctr<p_desc, cds::sync::spin>> q4d;
    family<q4a, HpHolder<4>>( "SegmentedQueue-asc", 4, false, 2, 2, 1, 2 );
    family<q4d, HpHolder<4>>( "SegmentedQueue-desc", 3, false, 2, 2, 1, 2 );
    typedef cc::SegmentedQueue<cds::gc::DHP, Payload, ctr<p_choose, cds::sync::spin>> q4c;
    family<q4c, DhpHolder>( "SegmentedQueue-choose", 4, false, 1, 1, 1, 1 );    // start-cell choices at every scan: one deviation is what completes
#elif FAMILY == 3
    // intrusive queue, items owned by the harness; quasi factor 2 and 8
    typedef ci::SegmentedQueue<cds::gc::HP, IItem, itr<p_choose, cds::sync::spin>> iq2;
    family<iq2, HpHolder<4>>( "intrusive-SegmentedQueue-choose", 2, false, 2, 3, 1, 2 );
    typedef ci::SegmentedQueue<cds::gc::DHP, IItem, itr<p_desc, cds::sync::spin>> iq8;
    family<iq8, DhpHolder>( "intrusive-SegmentedQueue-desc", 8, false, 2, 3, 1, 2 );
#endif
    Options o; o.property = vh::property().c_str();
    o.default_bound_quick = 2; o.default_bound_thorough = 3;
    return main_run( argc, argv, g_scen, o );
}
