// C21: free lists never hand out a node twice and never lose one (DESIGN.md 9/C21)
#include "common.h"
#include <cds/init.h>
#include <cds/intrusive/free_list.h>
#include <cds/intrusive/free_list_tagged.h>
#include <cds/intrusive/free_list_cached.h>
#include <cds/threading/model.h>
#include <sstream>
#include <set>

using namespace cdsmc;
namespace ci = cds::intrusive;

namespace {

enum FOp { F_GET, F_PUT_LAST, F_PUT_OWN };     // PUT_LAST: put back the node obtained by this thread's most recent get; PUT_OWN: put the thread's initial node
struct Ins { int op; };
typedef std::vector<Ins> Prog;
constexpr int NNODE = 6;

template <class FL>
class FlRun: public Run
{
    struct Node: FL::node { int id; };
    std::vector<Prog> progs_; int prefill_;
    FL fl_;
    Node nodes_[NNODE];
    int owner_[NNODE];          // -1: in the list (or on its way into it), t >= 0: held by thread t
    std::ostringstream log_;
    std::string fail_sig_, fail_msg_;

    void fail( const char* sig, std::string const& m )
    {
        if ( cds_verif::active()) cds_verif::fail_sig( sig, m.c_str());
        if ( fail_sig_.empty()) { fail_sig_ = sig; fail_msg_ = m; }
    }
    Node* do_get( int t )
    {
        auto* p = fl_.get();
        if ( !p ) { log_ << " t" << t << ":get=none"; return nullptr; }
        Node* n = static_cast<Node*>( p );
        log_ << " t" << t << ":get=n" << n->id;
        if ( owner_[n->id] != -1 ) {
            std::ostringstream m; m << "get() by t" << t << " returned node n" << n->id << " which is held by t" << owner_[n->id] << " and has not been put back";
            fail( "C21:handed-out-twice", m.str());
        }
        owner_[n->id] = t;
        return n;
    }
    void do_put( int t, Node* n )
    {
        log_ << " t" << t << ":put(n" << n->id << ")";
        owner_[n->id] = -1;
        fl_.put( n );
    }

public:
    FlRun( std::vector<Prog> p, int prefill ): progs_( p ), prefill_( prefill )
    {
        for ( int i = 0; i < NNODE; ++i ) { nodes_[i].id = i; owner_[i] = -2; }     // -2: not in play
    }
    int nthreads() const override { return int( progs_.size()); }
    void setup() override
    {
        cds::threading::Manager::attachThread();
        for ( int i = 0; i < prefill_; ++i ) { owner_[i] = 100; do_put( -1, &nodes_[i] ); }
        // each thread starts with one node of its own (so that it can put before it gets)
        for ( int t = 0; t < nthreads(); ++t ) owner_[prefill_ + t] = t;
    }
    void prologue( int ) override { cds::threading::Manager::attachThread(); }
    void epilogue( int ) override { cds::threading::Manager::detachThread(); }
    void thread( int t ) override
    {
        Node* last = nullptr; bool own_used = false;
        for ( auto const& in : progs_[t] ) {
            switch ( in.op ) {
            case F_GET: { Node* n = do_get( t ); if ( n ) last = n; break; }
            case F_PUT_LAST: if ( last ) { do_put( t, last ); last = nullptr; } break;
            case F_PUT_OWN: if ( !own_used ) { own_used = true; do_put( t, &nodes_[prefill_ + t] ); } break;
            }
        }
    }
    void teardown() override
    {
        // everything that was put and not taken out must be obtainable again, each node once
        std::set<int> expected, got;
        for ( int i = 0; i < NNODE; ++i ) if ( owner_[i] == -1 ) expected.insert( i );
        for ( int i = 0; i < NNODE + 2; ++i ) {
            auto* p = fl_.get();
            if ( !p ) break;
            int id = static_cast<Node*>( p )->id;
            log_ << " drain=n" << id;
            if ( !got.insert( id ).second ) fail( "C21:handed-out-twice", "draining the quiescent list returned node n" + std::to_string( id ) + " twice" );
        }
        if ( got != expected ) {
            std::ostringstream m; m << "after quiescence " << expected.size() << " nodes are in the list by the put/get history, but draining it yields " << got.size();
            for ( int e : expected ) if ( !got.count( e )) m << "; node n" << e << " is lost";
            for ( int g : got ) if ( !expected.count( g )) m << "; node n" << g << " was never put back";
            fail( "C21:lost-node", m.str());
        }
        if ( !fl_.empty()) fail( "C21:lost-node", "empty() is false after the list was drained" );
        cds::threading::Manager::detachThread();
    }
    void check( Result& r ) override
    {
        r.description = log_.str(); r.outcome_hash = hash_str( log_.str()); r.nontrivial = true;
        if ( !fail_sig_.empty()) r.fail( fail_sig_, fail_msg_ );
    }
};

std::vector<Scenario> g_scen;

template <class FL>
void family( std::string const& name, int bq2, int bt2, int bq3, int bt3 )
{
    auto add = [&]( std::string id, std::vector<Prog> p, int prefill, int bq, int bt ) {
        Scenario s; s.id = name + "/" + id; s.make = [p, prefill]() { return std::unique_ptr<Run>( new FlRun<FL>( p, prefill )); };
        s.bound_quick = bq; s.bound_thorough = bt; g_scen.push_back( s );
    };
    Prog g = { { F_GET } }, gg = { { F_GET }, { F_GET } }, gp = { { F_GET }, { F_PUT_LAST } }, gpg = { { F_GET }, { F_PUT_LAST }, { F_GET } };
    Prog pg = { { F_PUT_OWN }, { F_GET } }, p = { { F_PUT_OWN } }, pgp = { { F_PUT_OWN }, { F_GET }, { F_PUT_LAST } };
    std::vector<std::pair<std::string, Prog>> ps = { { "g", g }, { "gg", gg }, { "gp", gp }, { "gpg", gpg }, { "pg", pg }, { "p", p }, { "pgp", pgp } };
    for ( int prefill : { 0, 1, 2 } )
        for ( size_t i = 0; i < ps.size(); ++i ) for ( size_t j = i; j < ps.size(); ++j )
            add( "pre" + std::to_string( prefill ) + "-" + ps[i].first + "|" + ps[j].first, { ps[i].second, ps[j].second }, prefill, bq2, bt2 );
    // three threads: a getter holds a reference while the node is taken and put back by the others
    for ( int prefill : { 1, 2 } ) {
        add( "pre" + std::to_string( prefill ) + "-g|gp|g", { g, gp, g }, prefill, bq3, bt3 );
        add( "pre" + std::to_string( prefill ) + "-gp|gp|gg", { gp, gp, gg }, prefill, bq3, bt3 );
        add( "pre" + std::to_string( prefill ) + "-g|gpg|pg", { g, gpg, pg }, prefill, bq3, bt3 );
        add( "pre" + std::to_string( prefill ) + "-gp|p|gg", { gp, p, gg }, prefill, bq3, bt3 );
    }
}

} // namespace

int main( int argc, char** argv )
{
    vh::take_property( argc, argv, "C21" );
    cds::Initialize();
    family<ci::FreeList>( "FreeList", 4, 6, 3, 4 );
    family<ci::TaggedFreeList>( "TaggedFreeList", 4, 6, 3, 4 );
    family<ci::CachedFreeList<ci::FreeList, 4>>( "CachedFreeList-FreeList", 3, 5, 2, 3 );
    family<ci::CachedFreeList<ci::TaggedFreeList, 4>>( "CachedFreeList-TaggedFreeList", 3, 5, 2, 3 );
    Options o; o.property = vh::property().c_str();
    o.default_bound_quick = 3; o.default_bound_thorough = 5;
    return main_run( argc, argv, g_scen, o );
}
