// C01 / C02 / C03: hazard-pointer reclamation (HP and DHP) under every interleaving within the bound.
// Programs are small instruction lists per thread, interpreted against the real cds::gc::HP / cds::gc::DHP.
// Oracle: lifetime ledger (DESIGN.md 7.3) with the two C01 rules and the C03 exactly-once / must-free rules.
#include <cds/init.h>
#include <cds/gc/hp.h>
#include <cds/gc/dhp.h>
#include <cds/threading/model.h>
#include "common.h"

#include <sstream>

using namespace cdsmc;

namespace {

enum Op : int {
    ATTACH, DETACH, BEGIN, END,
    PROTECT,        // a=slot b=src   : g[a].protect( src[b] )
    ASSIGN,         // a=slot b=obj   : g[a].assign( obj b )  (no validation)
    DEREF,          // a=slot
    RELEASE,        // a=slot
    SWAPRET,        // a=src  b=obj   : old = src[a].exchange( obj b ); retire( old )
    RETIRE,         // a=obj          : retire an object nobody can reach
    BULK,           // a=first b=count: retire objects a..a+b-1
    SCAN,
    GUARDS,         // a=count        : make sure 'a' Guard objects exist (DHP: exhaust the initial array)
    PROTECTN        // a=first slot b=count : assign objects a.. to slots a.. (bulk guard set-up, obj index == slot index + c)
};

struct Ins { int op, a, b, c; };
typedef std::vector<Ins> Prog;

constexpr int NOBJ = 700;
constexpr int NSRC = 4;
constexpr int MAXTHR = 5;   // participants 0..4

struct Obj {
    int state = 0;          // 0 unused/live, 1 retired, 2 disposed
    int disposed = 0;
    int retired_by = -1;
    uint64_t t_retire = 0, t_dispose = 0;
};

struct Interval {
    int obj, thr, slot;
    bool validated;
    uint64_t a_early, a_late, b_early, b_late;   // 0 = still open
};

struct Ledger {
    Obj obj[NOBJ];
    std::vector<Interval> iv;
    uint64_t api_inv[MAXTHR + 8] = {};
    // protect calls in flight (for the must-free rule)
    std::vector<std::pair<uint64_t, uint64_t>> protect_calls;   // (inv, ret or 0)
    std::string first_fail_sig, first_fail_msg;
    std::ostringstream log;
};

struct Cfg {
    bool dhp = false;
    // HP
    int H = 1, N = 2, R = 0;
    bool classic = false;
    // DHP
    int initial = 4;
    bool odd = false;
    std::string name() const
    {
        std::ostringstream o;
        if ( dhp ) o << "dhp-i" << initial;
        else o << "hp-" << ( classic ? "classic" : "inplace" ) << "-H" << H << "N" << N << "R" << R;
        o << ( odd ? "-odd" : "-even" );
        return o.str();
    }
};

Ledger* g_ledger = nullptr;
alignas( 64 ) char g_arena[NOBJ * 16 + 64];
bool g_odd = false;
std::string g_pp = "C01";     // property that owns the protection rules: C01 for HP, C02 for DHP

inline char* obj_ptr( int i ) { return g_arena + 16 + i * 16 + ( g_odd ? 1 : 0 ); }
inline int obj_idx( void* p ) { return p ? int(( static_cast<char*>( p ) - g_arena - 16 ) / 16 ) : -1; }

void note_fail( std::string const& sig, std::string const& msg )
{
    if ( !vh::sig_enabled( sig )) return;
    // mid-execution: abandon this execution now (the state may be arbitrarily broken afterwards)
    if ( cds_verif::active()) cds_verif::fail_sig( sig.c_str(), msg.c_str());
    if ( g_ledger && g_ledger->first_fail_sig.empty()) { g_ledger->first_fail_sig = sig; g_ledger->first_fail_msg = msg; }
}

void disposer( void* p )
{
    Ledger& L = *g_ledger;
    int i = obj_idx( p );
    int t = cds_verif::self_id(); if ( t < 0 ) t = 0;
    uint64_t d = cds_verif::stamp();
    L.log << " t" << t << ":dispose(o" << i << ")";
    if ( i < 0 || i >= NOBJ ) { note_fail( "C03:dispose-unknown", "disposer called with a pointer that was never retired" ); return; }
    Obj& o = L.obj[i];
    ++o.disposed;
    if ( o.state == 0 )
        note_fail( "C03:dispose-without-retire", "object o" + std::to_string( i ) + " given to its disposer but never retired" );
    if ( o.disposed > 1 )
        note_fail( "C03:double-dispose", "object o" + std::to_string( i ) + " given to its disposer " + std::to_string( o.disposed ) + " times" );
    uint64_t s = L.api_inv[t];
    for ( Interval const& v : L.iv ) {
        if ( v.obj != i ) continue;
        if ( v.a_late != 0 && v.a_late < s && ( v.b_early == 0 || d < v.b_early )) {
            std::ostringstream m;
            m << "object o" << i << " disposed by t" << t << " (pass began at " << s << ", dispose at " << d << ") while guard slot "
              << v.slot << " of t" << v.thr << " protects it since " << v.a_late << ( v.b_early ? "" : " and is still held" );
            note_fail( g_pp + ":premature-dispose", m.str());
        }
    }
    o.state = 2; o.t_dispose = d;
}

// ---------------------------------------------------------------------------------------------
template <class GC>
class SmrRun: public Run
{
    Cfg cfg_;
    std::vector<Prog> progs_;
    Ledger L;
    std::unique_ptr<GC> gc_;
    atomics::atomic<char*> src_[NSRC];
    std::vector<int> init_src_;
    std::vector<std::unique_ptr<typename GC::Guard>> guards_[MAXTHR + 1];
    std::vector<int> cur_iv_[MAXTHR + 1];   // slot -> index in L.iv or -1

public:
    SmrRun( Cfg c, std::vector<Prog> p, std::vector<int> init_src ): cfg_( c ), progs_( p ), init_src_( init_src ) {}

    int nthreads() const override { return int( progs_.size()); }

    void make_gc( std::unique_ptr<cds::gc::HP>& g )
    {
        g.reset( new cds::gc::HP( size_t( cfg_.H ), size_t( cfg_.N ), size_t( cfg_.R ),
            cfg_.classic ? cds::gc::HP::scan_type::classic : cds::gc::HP::scan_type::inplace ));
    }
    void make_gc( std::unique_ptr<cds::gc::DHP>& g ) { g.reset( new cds::gc::DHP( size_t( cfg_.initial ))); }

    void setup() override
    {
        g_ledger = &L;
        g_odd = cfg_.odd;
        g_pp = cfg_.dhp ? "C02" : "C01";
        make_gc( gc_ );
        for ( int i = 0; i < NSRC; ++i )
            src_[i].store( i < int( init_src_.size()) && init_src_[i] >= 0 ? obj_ptr( init_src_[i] ) : nullptr, atomics::memory_order_relaxed );
    }

    typename GC::Guard& guard( int t, int slot )
    {
        auto& v = guards_[t];
        while ( int( v.size()) <= slot ) { v.emplace_back( new typename GC::Guard ); cur_iv_[t].push_back( -1 ); }
        return *v[slot];
    }

    void close_interval( int t, int slot, bool late )
    {
        int k = cur_iv_[t][slot];
        if ( k < 0 ) return;
        if ( !late ) { if ( !L.iv[k].b_early ) L.iv[k].b_early = cds_verif::stamp(); }
        else { L.iv[k].b_late = cds_verif::stamp(); cur_iv_[t][slot] = -1; }
    }

    void must_free_check( int t, uint64_t s, const char* what )
    {
        uint64_t now = cds_verif::stamp();
        for ( auto const& pc : L.protect_calls )
            if ( pc.first < now && ( pc.second == 0 || pc.second > s )) return;    // a protect() overlapped the pass: transient hazards possible
        for ( int i = 0; i < NOBJ; ++i ) {
            Obj& o = L.obj[i];
            if ( o.state != 1 || o.retired_by != t ) continue;
            bool covered = false;
            for ( Interval const& v : L.iv )
                if ( v.obj == i && v.a_early < now && ( v.b_late == 0 || v.b_late > s )) { covered = true; break; }
            if ( !covered ) {
                std::ostringstream m;
                m << "object o" << i << " retired by t" << t << " is not protected by any guard, but the reclamation pass run by " << what
                  << " (" << s << ".." << now << ") did not free it";
                note_fail( "C03:unguarded-not-freed", m.str());
            }
        }
    }

    void retire_obj( int t, int i )
    {
        Obj& o = L.obj[i];
        o.state = 1; o.retired_by = t; o.t_retire = cds_verif::stamp();
        L.api_inv[t] = cds_verif::stamp();
        GC::retire( obj_ptr( i ), disposer );
    }

    void exec( int t, Ins const& in )
    {
        int me = t + 1;     // participant id
        switch ( in.op ) {
        case ATTACH:
            L.log << " t" << me << ":attach";
            cds::threading::Manager::attachThread();
            break;
        case DETACH: {
            L.log << " t" << me << ":detach";
            for ( size_t s = 0; s < guards_[me].size(); ++s ) close_interval( me, int( s ), false );
            guards_[me].clear();
            for ( size_t s = 0; s < cur_iv_[me].size(); ++s ) close_interval( me, int( s ), true );
            cur_iv_[me].clear();
            uint64_t s = L.api_inv[me] = cds_verif::stamp();
            cds::threading::Manager::detachThread();
            must_free_check( me, s, "detach" );
            break;
        }
        case GUARDS:
            guard( me, in.a - 1 );
            break;
        case PROTECT: {
            typename GC::Guard& g = guard( me, in.a );
            close_interval( me, in.a, false );
            uint64_t a0 = cds_verif::stamp();
            L.protect_calls.push_back( { a0, 0 } );
            size_t pc = L.protect_calls.size() - 1;
            char* p = g.protect( src_[in.b] );
            L.protect_calls[pc].second = cds_verif::stamp();
            close_interval( me, in.a, true );
            int i = obj_idx( p );
            L.log << " t" << me << ":protect(s" << in.b << ")=o" << i;
            if ( i >= 0 ) {
                Interval v{ i, me, in.a, true, a0, cds_verif::stamp(), 0, 0 };
                L.iv.push_back( v );
                cur_iv_[me][in.a] = int( L.iv.size()) - 1;
            }
            break;
        }
        case ASSIGN: {
            typename GC::Guard& g = guard( me, in.a );
            close_interval( me, in.a, false );
            uint64_t a0 = cds_verif::stamp();
            g.assign( obj_ptr( in.b ));
            close_interval( me, in.a, true );
            Interval v{ in.b, me, in.a, false, a0, cds_verif::stamp(), 0, 0 };
            L.iv.push_back( v );
            cur_iv_[me][in.a] = int( L.iv.size()) - 1;
            L.log << " t" << me << ":assign(g" << in.a << ",o" << in.b << ")";
            break;
        }
        case PROTECTN:
            for ( int k = 0; k < in.b; ++k ) exec( t, Ins{ ASSIGN, in.a + k, in.c + k, 0 } );
            break;
        case DEREF: {
            int k = in.a < int( cur_iv_[me].size()) ? cur_iv_[me][in.a] : -1;
            if ( k >= 0 && L.iv[k].validated ) {
                int i = L.iv[k].obj;
                L.log << " t" << me << ":deref(o" << i << ")";
                if ( L.obj[i].state == 2 ) {
                    std::ostringstream m;
                    m << "t" << me << " dereferences o" << i << " through guard slot " << in.a << " obtained by protect(), but the object was already given to its disposer at " << L.obj[i].t_dispose;
                    note_fail( g_pp + ":use-after-dispose", m.str());
                }
            }
            break;
        }
        case RELEASE: {
            typename GC::Guard& g = guard( me, in.a );
            close_interval( me, in.a, false );
            g.clear();
            close_interval( me, in.a, true );
            L.log << " t" << me << ":release(g" << in.a << ")";
            break;
        }
        case SWAPRET: {
            char* old = src_[in.a].exchange( in.b >= 0 ? obj_ptr( in.b ) : nullptr, atomics::memory_order_acq_rel );
            int i = obj_idx( old );
            L.log << " t" << me << ":swap(s" << in.a << ",o" << in.b << ")=o" << i;
            if ( i >= 0 ) { L.log << ",retire"; retire_obj( me, i ); }
            break;
        }
        case RETIRE:
            L.log << " t" << me << ":retire(o" << in.a << ")";
            retire_obj( me, in.a );
            break;
        case BULK:
            L.log << " t" << me << ":retire(o" << in.a << "..o" << in.a + in.b - 1 << ")";
            for ( int k = 0; k < in.b; ++k ) retire_obj( me, in.a + k );
            break;
        case SCAN: {
            L.log << " t" << me << ":scan";
            uint64_t s = L.api_inv[me] = cds_verif::stamp();
            GC::scan();
            must_free_check( me, s, "scan()" );
            break;
        }
        default: break;
        }
    }

    void run_range( int t, int phase )
    {
        Prog const& p = progs_[t];
        int cur = 0;
        bool has_begin = false;
        for ( auto const& in : p ) if ( in.op == BEGIN ) has_begin = true;
        if ( !has_begin ) cur = 1;
        for ( auto const& in : p ) {
            if ( in.op == BEGIN ) { cur = 1; continue; }
            if ( in.op == END ) { cur = 2; continue; }
            if ( cur == phase ) exec( t, in );
        }
    }

    void prologue( int t ) override { run_range( t, 0 ); }
    void thread( int t ) override { run_range( t, 1 ); }
    void epilogue( int t ) override { run_range( t, 2 ); }

    void teardown() override
    {
        L.api_inv[0] = cds_verif::stamp();
        for ( auto& v : guards_ ) v.clear();    // (threads that forgot to detach: not used by our programs)
        gc_.reset();
        L.log << " ctl:destroy-singleton";
    }

    void check( Result& r ) override
    {
        g_ledger = nullptr;
        r.description = cfg_.name() + ":" + L.log.str();
        uint64_t h = 0; bool nt = false;
        for ( int i = 0; i < NOBJ; ++i ) {
            Obj& o = L.obj[i];
            if ( o.state == 0 && o.disposed == 0 ) continue;
            h = hash_mix( h, uint64_t( i ) * 8 + uint64_t( o.disposed ));
        }
        // outcome = which API call each object was disposed in (order-insensitive summary of the log)
        h = hash_mix( h, hash_str( L.log.str()));
        r.outcome_hash = h;
        for ( Interval const& v : L.iv ) if ( L.obj[v.obj].state != 0 ) nt = true;
        r.nontrivial = nt;
        if ( !L.first_fail_sig.empty()) { r.fail( L.first_fail_sig, L.first_fail_msg ); return; }
        if ( vh::wants( "C03" )) {
            for ( int i = 0; i < NOBJ; ++i ) {
                Obj& o = L.obj[i];
                if ( o.state == 1 && o.disposed == 0 ) {
                    r.fail( "C03:never-disposed", "object o" + std::to_string( i ) + " was retired but never given to its disposer, even by destruction of the singleton" );
                    return;
                }
                if ( o.disposed > 1 ) { r.fail( "C03:double-dispose", "object o" + std::to_string( i ) + " disposed " + std::to_string( o.disposed ) + " times" ); return; }
            }
        }
    }
};

// ---------------------------------------------------------------------------------------------
// scenario families
// ---------------------------------------------------------------------------------------------
std::vector<Scenario> g_scen;

template <class GC>
void add( std::string const& id, Cfg c, std::vector<Prog> p, std::vector<int> init_src, int tier = 0, int bq = -1, int bt = -1, unsigned horizon = 20000 )
{
    Scenario s;
    s.id = ( c.dhp ? "dhp/" : "hp/" ) + id + "/" + c.name();
    s.make = [=]() { return std::unique_ptr<Run>( new SmrRun<GC>( c, p, init_src )); };
    s.tier = tier; s.bound_quick = bq; s.bound_thorough = bt; s.horizon = horizon;
    g_scen.push_back( s );
}

void hp_family()
{
    for ( int classic = 0; classic < 2; ++classic )
    for ( int odd = 0; odd < 2; ++odd ) {
        Cfg c; c.classic = classic; c.odd = odd;

        // --- sequential: one thread guards an object, retires it among others, runs a pass (F1) ---
        for ( int order = 0; order < 3; ++order ) {
            Cfg c1 = c; c1.H = 2; c1.N = 1; c1.R = 3;
            // objects: 0 = protected one (in src0), 1,2 = fillers
            Prog p = { {ATTACH,0,0,0}, {PROTECT,0,0,0} };
            std::vector<Ins> rets = { {SWAPRET,0,-1,0}, {RETIRE,1,0,0} };
            if ( order == 0 ) { p.push_back( rets[0] ); p.push_back( rets[1] ); }
            else if ( order == 1 ) { p.push_back( rets[1] ); p.push_back( rets[0] ); }
            else { p.push_back( rets[1] ); p.push_back( rets[0] ); p.push_back( Ins{RETIRE,2,0,0} ); }   // third retire fills the array: pass by capacity
            if ( order != 2 ) p.push_back( Ins{SCAN,0,0,0} );
            p.push_back( Ins{DEREF,0,0,0} ); p.push_back( Ins{RELEASE,0,0,0} ); p.push_back( Ins{SCAN,0,0,0} ); p.push_back( Ins{DETACH,0,0,0} );
            add<cds::gc::HP>( "seq-guard-retire-scan-order" + std::to_string( order ), c1, { p }, { 0 } );
        }
        // unguarded object next to a guarded one: the pass must free the unguarded one (C03 third sentence)
        {
            Cfg c1 = c; c1.H = 1; c1.N = 1; c1.R = 4;
            Prog p = { {ATTACH,0,0,0}, {PROTECT,0,0,0}, {SWAPRET,0,-1,0}, {RETIRE,1,0,0}, {RETIRE,2,0,0}, {SCAN,0,0,0}, {RELEASE,0,0,0}, {SCAN,0,0,0}, {DETACH,0,0,0} };
            add<cds::gc::HP>( "seq-mustfree", c1, { p }, { 0 } );
        }

        // --- reader vs writer ---
        for ( int H = 1; H <= 2; ++H ) {
            Cfg c2 = c; c2.H = H; c2.N = 2; c2.R = H * 2 + 1;
            Prog rd = { {ATTACH,0,0,0}, {PROTECT,0,0,0}, {DEREF,0,0,0}, {DEREF,0,0,0}, {RELEASE,0,0,0}, {DETACH,0,0,0} };
            Prog wr = { {ATTACH,0,0,0}, {SWAPRET,0,1,0}, {SCAN,0,0,0}, {DETACH,0,0,0} };
            add<cds::gc::HP>( "rw-scan", c2, { rd, wr }, { 0 } );
            // pass triggered by capacity: fillers until the array is full
            Prog wr2 = { {ATTACH,0,0,0}, {SWAPRET,0,1,0} };
            for ( int k = 0; k < c2.R - 1; ++k ) wr2.push_back( Ins{RETIRE,10 + k,0,0} );
            wr2.push_back( Ins{DETACH,0,0,0} );
            add<cds::gc::HP>( "rw-capacity", c2, { rd, wr2 }, { 0 } );
        }
        // attach/detach outside the window (three-phase): deeper bound on the protect/retire/scan core
        {
            Cfg c2 = c; c2.H = 1; c2.N = 2; c2.R = 3;
            Prog rd = { {ATTACH,0,0,0}, {BEGIN,0,0,0}, {PROTECT,0,0,0}, {DEREF,0,0,0}, {PROTECT,0,0,0}, {DEREF,0,0,0}, {RELEASE,0,0,0}, {END,0,0,0}, {DETACH,0,0,0} };
            Prog wr = { {ATTACH,0,0,0}, {BEGIN,0,0,0}, {SWAPRET,0,1,0}, {SCAN,0,0,0}, {SWAPRET,0,2,0}, {SCAN,0,0,0}, {END,0,0,0}, {DETACH,0,0,0} };
            add<cds::gc::HP>( "rw-core2", c2, { rd, wr }, { 0 }, 0, 3, 4 );
        }
        // --- three threads: reader, writer, and a thread whose record is adopted/reused ---
        {
            Cfg c3 = c; c3.H = 1; c3.N = 3; c3.R = 4;
            Prog rd = { {ATTACH,0,0,0}, {PROTECT,0,0,0}, {DEREF,0,0,0}, {RELEASE,0,0,0}, {DETACH,0,0,0} };
            Prog wr = { {ATTACH,0,0,0}, {SWAPRET,0,1,0}, {DETACH,0,0,0} };     // leaves o0 in its record if still guarded
            Prog t3 = { {ATTACH,0,0,0}, {SCAN,0,0,0}, {DETACH,0,0,0} };       // may reuse the writer's record or adopt its leftovers
            add<cds::gc::HP>( "rw-orphan-adopt", c3, { rd, wr, t3 }, { 0 }, 0, 2, 3 );
        }
        // two helpers race to adopt the leftovers of a detached thread (only the two detach calls are explored, so the bound can be deeper)
        {
            Cfg c4 = c; c4.H = 1; c4.N = 4; c4.R = 5;
            Prog rd = { {ATTACH,0,0,0}, {PROTECT,0,0,0}, {BEGIN,0,0,0}, {END,0,0,0}, {DEREF,0,0,0}, {RELEASE,0,0,0}, {DETACH,0,0,0} };
            Prog wr = { {ATTACH,0,0,0}, {SWAPRET,0,1,0}, {RETIRE,2,0,0}, {DETACH,0,0,0}, {BEGIN,0,0,0}, {END,0,0,0} };     // leaves o0 (guarded) in an ownerless record
            Prog h1 = { {ATTACH,0,0,0}, {BEGIN,0,0,0}, {DETACH,0,0,0}, {END,0,0,0} };
            Prog h2 = { {ATTACH,0,0,0}, {BEGIN,0,0,0}, {DETACH,0,0,0}, {END,0,0,0} };
            add<cds::gc::HP>( "adopt-race", c4, { rd, h1, h2, wr }, { 0 }, 0, 2, 3 );      // the writer attaches last: the helpers cannot simply reuse its record
            Prog h3 = { {ATTACH,0,0,0}, {RETIRE,3,0,0}, {BEGIN,0,0,0}, {DETACH,0,0,0}, {END,0,0,0} };
            add<cds::gc::HP>( "adopt-race-retiring-helper", c4, { rd, h1, h3, wr }, { 0 }, 1, 2, 3 );
        }
        // a thread attaches (re-using an ownerless record) while another thread's detach is adopting that very record
        {
            Cfg c4 = c; c4.H = 1; c4.N = 4; c4.R = 5;
            Prog hp = { {ATTACH,0,0,0}, {BEGIN,0,0,0}, {DETACH,0,0,0}, {END,0,0,0} };
            Prog xw = { {ATTACH,0,0,0}, {BEGIN,0,0,0}, {SWAPRET,0,1,0}, {SCAN,0,0,0}, {END,0,0,0}, {DETACH,0,0,0} };
            Prog wd = { {ATTACH,0,0,0}, {DETACH,0,0,0}, {BEGIN,0,0,0}, {END,0,0,0} };                 // leaves an ownerless record behind
            Prog at = { {BEGIN,0,0,0}, {ATTACH,0,0,0}, {PROTECT,0,0,0}, {DEREF,0,0,0}, {DEREF,0,0,0}, {END,0,0,0}, {RELEASE,0,0,0}, {DETACH,0,0,0} };
            add<cds::gc::HP>( "attach-vs-helpscan", c4, { hp, xw, wd, at }, { 0 }, 0, 2, 3 );
        }
        // two writers retiring different objects guarded by one reader with two slots
        {
            Cfg c3 = c; c3.H = 2; c3.N = 3; c3.R = 7;
            Prog rd = { {ATTACH,0,0,0}, {BEGIN,0,0,0}, {PROTECT,0,0,0}, {PROTECT,1,1,0}, {DEREF,0,0,0}, {DEREF,1,0,0}, {RELEASE,0,0,0}, {DEREF,1,0,0}, {RELEASE,1,0,0}, {END,0,0,0}, {DETACH,0,0,0} };
            Prog w1 = { {ATTACH,0,0,0}, {BEGIN,0,0,0}, {SWAPRET,0,2,0}, {SCAN,0,0,0}, {END,0,0,0}, {DETACH,0,0,0} };
            Prog w2 = { {ATTACH,0,0,0}, {BEGIN,0,0,0}, {SWAPRET,1,3,0}, {SCAN,0,0,0}, {END,0,0,0}, {DETACH,0,0,0} };
            add<cds::gc::HP>( "r2slots-w-w", c3, { rd, w1, w2 }, { 0, 1 }, 0, 2, 3 );
        }
    }
}

void dhp_family()
{
    for ( int odd = 0; odd < 2; ++odd )
    for ( int initial : { 4, 3 /* clamped to 16 */ } ) {
        Cfg c; c.dhp = true; c.odd = odd; c.initial = initial;
        // sequential
        {
            Prog p = { {ATTACH,0,0,0}, {PROTECT,0,0,0}, {SWAPRET,0,-1,0}, {RETIRE,1,0,0}, {SCAN,0,0,0}, {DEREF,0,0,0}, {RELEASE,0,0,0}, {SCAN,0,0,0}, {DETACH,0,0,0} };
            add<cds::gc::DHP>( "seq-guard-retire-scan", c, { p }, { 0 } );
        }
        // reader vs writer
        {
            Prog rd = { {ATTACH,0,0,0}, {PROTECT,0,0,0}, {DEREF,0,0,0}, {DEREF,0,0,0}, {RELEASE,0,0,0}, {DETACH,0,0,0} };
            Prog wr = { {ATTACH,0,0,0}, {SWAPRET,0,1,0}, {SCAN,0,0,0}, {DETACH,0,0,0} };
            add<cds::gc::DHP>( "rw-scan", c, { rd, wr }, { 0 }, 0, 2, 3 );
        }
        // protection lives in an extension block published while the writer scans
        {
            int g = initial < 4 ? 16 : initial;
            Prog rd = { {ATTACH,0,0,0}, {GUARDS,g,0,0}, {BEGIN,0,0,0}, {PROTECT,g,0,0}, {DEREF,g,0,0}, {DEREF,g,0,0}, {RELEASE,g,0,0}, {END,0,0,0}, {DETACH,0,0,0} };
            Prog wr = { {ATTACH,0,0,0}, {BEGIN,0,0,0}, {SWAPRET,0,1,0}, {SCAN,0,0,0}, {END,0,0,0}, {DETACH,0,0,0} };
            add<cds::gc::DHP>( "rw-extblock", c, { rd, wr }, { 0 }, 0, 2, 3 );
        }
        // orphan adoption + record reuse
        if ( initial == 4 ) {
            Prog rd = { {ATTACH,0,0,0}, {PROTECT,0,0,0}, {DEREF,0,0,0}, {RELEASE,0,0,0}, {DETACH,0,0,0} };
            Prog wr = { {ATTACH,0,0,0}, {SWAPRET,0,1,0}, {DETACH,0,0,0} };
            Prog t3 = { {ATTACH,0,0,0}, {SCAN,0,0,0}, {DETACH,0,0,0} };
            add<cds::gc::DHP>( "rw-orphan-adopt", c, { rd, wr, t3 }, { 0 }, 0, 2, 2, 40000 );
        }
    }
    {
        Cfg c; c.dhp = true; c.initial = 4;
        Prog rd = { {ATTACH,0,0,0}, {PROTECT,0,0,0}, {BEGIN,0,0,0}, {END,0,0,0}, {DEREF,0,0,0}, {RELEASE,0,0,0}, {DETACH,0,0,0} };
        Prog wr = { {ATTACH,0,0,0}, {SWAPRET,0,1,0}, {RETIRE,2,0,0}, {DETACH,0,0,0}, {BEGIN,0,0,0}, {END,0,0,0} };
        Prog h1 = { {ATTACH,0,0,0}, {BEGIN,0,0,0}, {DETACH,0,0,0}, {END,0,0,0} };
        add<cds::gc::DHP>( "adopt-race", c, { rd, h1, h1, wr }, { 0 }, 0, 2, 3, 40000 );
    }
    {
        Cfg c; c.dhp = true; c.initial = 4;
        Prog hp = { {ATTACH,0,0,0}, {BEGIN,0,0,0}, {DETACH,0,0,0}, {END,0,0,0} };
        Prog xw = { {ATTACH,0,0,0}, {BEGIN,0,0,0}, {SWAPRET,0,1,0}, {SCAN,0,0,0}, {END,0,0,0}, {DETACH,0,0,0} };
        Prog wd = { {ATTACH,0,0,0}, {RETIRE,5,0,0}, {DETACH,0,0,0}, {BEGIN,0,0,0}, {END,0,0,0} };
        Prog at = { {BEGIN,0,0,0}, {ATTACH,0,0,0}, {PROTECT,0,0,0}, {DEREF,0,0,0}, {DEREF,0,0,0}, {END,0,0,0}, {RELEASE,0,0,0}, {DETACH,0,0,0} };
        add<cds::gc::DHP>( "attach-vs-helpscan", c, { hp, xw, wd, at }, { 0 }, 0, 2, 3, 40000 );
    }
    // the same race with a record that is NOT empty when it is abandoned (its retired object is guarded by a fifth thread), so that
    // help_scan() really takes it over while another thread attaches to it
    {
        Cfg c; c.dhp = true; c.initial = 4;
        Prog gd = { {ATTACH,0,0,0}, {ASSIGN,0,5,0}, {BEGIN,0,0,0}, {END,0,0,0}, {RELEASE,0,0,0}, {DETACH,0,0,0} };         // guards o5 throughout
        Prog wd = { {ATTACH,0,0,0}, {RETIRE,5,0,0}, {DETACH,0,0,0}, {BEGIN,0,0,0}, {END,0,0,0} };                           // abandons a record that still holds o5
        Prog hx = { {ATTACH,0,0,0}, {BEGIN,0,0,0}, {DETACH,0,0,0}, {END,0,0,0} };                                           // its detach() runs help_scan()
        Prog at = { {BEGIN,0,0,0}, {ATTACH,0,0,0}, {PROTECT,0,0,0}, {DEREF,0,0,0}, {DEREF,0,0,0}, {END,0,0,0}, {RELEASE,0,0,0}, {DETACH,0,0,0} };   // attaches (reusing the abandoned record) and protects o0
        Prog xw = { {ATTACH,0,0,0}, {BEGIN,0,0,0}, {SWAPRET,0,1,0}, {SCAN,0,0,0}, {END,0,0,0}, {DETACH,0,0,0} };            // retires o0 and scans
        // wd comes last: the others are attached before it abandons its record (otherwise one of them would simply reuse it)
        add<cds::gc::DHP>( "attach-vs-helpscan-nonempty", c, { gd, hx, at, xw, wd }, { 0 }, 0, 1, 2, 40000 );
    }
    // retired-array growth (F2): g guarded of 256 retired by one thread, then release and scan
    for ( int g : { 0, 1, 63, 64, 192, 193, 200, 255, 256 } ) {
        Cfg c; c.dhp = true; c.initial = 4;
        Prog p = { {ATTACH,0,0,0} };
        if ( g ) p.push_back( Ins{PROTECTN,0,g,0} );
        p.push_back( Ins{BULK,0,256,0} );      // the 256th retire fills the block: pass
        p.push_back( Ins{BULK,256,8,0} );      // a few more (land in whatever the cursor points at)
        for ( int k = 0; k < g; ++k ) p.push_back( Ins{RELEASE,k,0,0} );
        p.push_back( Ins{SCAN,0,0,0} );
        p.push_back( Ins{SCAN,0,0,0} );
        p.push_back( Ins{DETACH,0,0,0} );
        add<cds::gc::DHP>( "seq-grow-g" + std::to_string( g ), c, { p }, {}, 0, 0, 0, 200000 );
    }
    // a thread detaches with a second (empty) retired block while 200 of its retired objects are still guarded by somebody else:
    // free_thread_data() trims the empty block; the record and the trimmed block are then reused by two other threads.
    // Entirely sequential (every step is in the prologue / epilogue, which run thread after thread).
    {
        Cfg c; c.dhp = true; c.initial = 4;
        // t0 guards o0..o199 and o256..o311 throughout
        Prog t0 = { {ATTACH,0,0,0}, {PROTECTN,0,200,0}, {PROTECTN,200,56,256}, {BEGIN,0,0,0}, {END,0,0,0} };
        for ( int k = 0; k < 256; ++k ) t0.push_back( Ins{RELEASE,k,0,0} );
        t0.push_back( Ins{DETACH,0,0,0} );
        // t1 retires 256 objects of which 200 survive the pass: an empty second block is appended; detach() trims it
        Prog t1 = { {ATTACH,0,0,0}, {BULK,0,256,0}, {DETACH,0,0,0}, {BEGIN,0,0,0}, {END,0,0,0} };
        // t2 takes over t1's record, fills the first block with 56 guarded objects (the pass frees nothing, the array is extended and
        // the cursor moves into the new block), then retires 50 unguarded objects
        Prog t2 = { {ATTACH,0,0,0}, {BULK,256,56,0}, {BULK,312,50,0}, {SCAN,0,0,0}, {BEGIN,0,0,0}, {END,0,0,0}, {SCAN,0,0,0}, {DETACH,0,0,0} };
        // t3 gets a new record (its first block is the one t1's detach released) and retires enough to go through two blocks
        Prog t3 = { {ATTACH,0,0,0}, {BULK,362,300,0}, {BEGIN,0,0,0}, {END,0,0,0}, {SCAN,0,0,0}, {DETACH,0,0,0} };
        add<cds::gc::DHP>( "seq-detach-trim", c, { t0, t1, t2, t3 }, {}, 0, 0, 0, 400000 );
        // t3 first, t2's retires after it
        Prog t2b = { {ATTACH,0,0,0}, {BEGIN,0,0,0}, {END,0,0,0}, {BULK,256,56,0}, {BULK,312,50,0}, {SCAN,0,0,0}, {DETACH,0,0,0} };
        add<cds::gc::DHP>( "seq-detach-trim-late", c, { t0, t1, t2b, t3 }, {}, 0, 0, 0, 400000 );
    }
    // multi-block retired list scanned while a reader protects an element of the first block
    {
        Cfg c; c.dhp = true; c.initial = 4;
        Prog rd = { {ATTACH,0,0,0}, {BEGIN,0,0,0}, {PROTECT,0,0,0}, {DEREF,0,0,0}, {DEREF,0,0,0}, {RELEASE,0,0,0}, {END,0,0,0}, {DETACH,0,0,0} };
        Prog wr = { {ATTACH,0,0,0}, {PROTECTN,0,200,100}, {BULK,100,255,0}, {BEGIN,0,0,0}, {SWAPRET,0,1,0}, {END,0,0,0}, {DETACH,0,0,0} };
        add<cds::gc::DHP>( "rw-multiblock", c, { rd, wr }, { 0 }, 1, 1, 1, 200000 );
    }
}

} // namespace

int main( int argc, char** argv )
{
    vh::take_property( argc, argv, "C01" );
    cds::Initialize();
    if ( vh::wants( "C01" )) hp_family();
    else if ( vh::wants( "C02" )) dhp_family();
    else { hp_family(); dhp_family(); }
    Options o; o.property = vh::property().c_str();
    o.default_bound_quick = 2; o.default_bound_thorough = 3;
    int rc = main_run( argc, argv, g_scen, o );
    return rc;
}
