// C04 / C05: user-space RCU (general_instant, general_buffered, general_threaded, signal_buffered) under every
// interleaving within the bound. Programs are instruction lists per thread interpreted against the real
// cds::urcu::gc<...>; oracle: lifetime ledger (DESIGN.md 7.3) with reader intervals.
#include <cds/init.h>
#include <cds/urcu/general_instant.h>
#include <cds/urcu/general_buffered.h>
#include <cds/urcu/general_threaded.h>
#include <cds/urcu/signal_buffered.h>
#include <cds/threading/model.h>
#include "common.h"
#include <sstream>
#include <signal.h>

using namespace cdsmc;

// ---- signal RCU: deliver the signal through the scheduler (DESIGN 4.6) ----------------------------------------------
// The harness executable defines sigaction/pthread_kill itself; signal_buffered's handler is recorded and run
// by the target participant "immediately and atomically".
#include <dlfcn.h>
namespace {
    struct sigaction g_sig_action[65];
    bool g_sig_set[65];
    struct SigCall { int signo; };
    void run_handler( void* p )
    {
        SigCall* c = static_cast<SigCall*>( p );
        struct sigaction& a = g_sig_action[c->signo];
        if ( a.sa_flags & SA_SIGINFO ) { siginfo_t si; memset( &si, 0, sizeof si ); si.si_signo = c->signo; a.sa_sigaction( c->signo, &si, nullptr ); }
        else if ( a.sa_handler && a.sa_handler != SIG_IGN && a.sa_handler != SIG_DFL ) a.sa_handler( c->signo );
    }
}

// SIGUSR1/SIGUSR2 handlers are recorded, not installed: delivery goes through the scheduler
extern "C" int sigaction( int signum, const struct sigaction* act, struct sigaction* oldact ) noexcept
{
    typedef int (*real_t)( int, const struct sigaction*, struct sigaction* );
    static real_t real = (real_t) dlsym( RTLD_NEXT, "sigaction" );
    if ( signum == SIGUSR1 || signum == SIGUSR2 ) {
        if ( oldact ) *oldact = g_sig_action[signum];
        if ( act ) { g_sig_action[signum] = *act; g_sig_set[signum] = true; }
        return 0;
    }
    return real ? real( signum, act, oldact ) : -1;
}

extern "C" int pthread_kill( pthread_t thread, int sig )
{
    typedef int (*real_t)( pthread_t, int );
    static real_t real = (real_t) dlsym( RTLD_NEXT, "pthread_kill" );
    if (( sig == SIGUSR1 || sig == SIGUSR2 ) && g_sig_set[sig] ) {
        int target = cds_verif::participant_of( (unsigned long) thread );
        if ( target >= 0 ) { SigCall c{ sig }; cds_verif::run_on( target, run_handler, &c ); }
        return 0;
    }
    return real ? real( thread, sig ) : -1;
}

namespace {

enum Op : int {
    ATTACH, DETACH, BEGIN, END,
    LOCK, UNLOCK,       // read-side critical section (nesting allowed)
    LOAD,               // a=slot b=src : p[slot] = src[b].load() (inside a read section)
    DEREF,              // a=slot
    SWAPRET,            // a=src b=obj : old = src[a].exchange( obj b ); retire( old )
    RETIRE,             // a=obj
    BATCH,              // a=first b=count : batch_retire
    SYNC
};
struct Ins { int op, a, b; };
typedef std::vector<Ins> Prog;

constexpr int NOBJ = 64;
constexpr int NSRC = 4;
constexpr int MAXP = 10;

struct Obj { int state = 0, disposed = 0; uint64_t t_retire_inv = 0, t_dispose = 0; };
struct Section { int thr; uint64_t a_late, b_early; };      // outermost read section: entered (lock returned) .. about to leave

struct Ledger {
    Obj obj[NOBJ];
    std::vector<Section> sec;
    int depth[MAXP] = {};
    int cur_sec[MAXP];
    std::string fail_sig, fail_msg;
    std::ostringstream log;
    Ledger() { for ( int& c : cur_sec ) c = -1; }
};
Ledger* g_ledger = nullptr;
alignas( 64 ) char g_arena[NOBJ * 16 + 16];
inline char* obj_ptr( int i ) { return g_arena + 16 * i; }
inline int obj_idx( void* p ) { return p ? int(( static_cast<char*>( p ) - g_arena ) / 16 ) : -1; }

void note_fail( std::string const& sig, std::string const& msg )
{
    if ( !vh::sig_enabled( sig )) return;
    if ( cds_verif::active()) cds_verif::fail_sig( sig.c_str(), msg.c_str());
    if ( g_ledger && g_ledger->fail_sig.empty()) { g_ledger->fail_sig = sig; g_ledger->fail_msg = msg; }
}

void disposer( void* p )
{
    Ledger& L = *g_ledger;
    int i = obj_idx( p );
    int t = cds_verif::self_id(); if ( t < 0 ) t = 0;
    uint64_t d = cds_verif::stamp();
    L.log << " t" << t << ":dispose(o" << i << ")";
    if ( i < 0 || i >= NOBJ ) { note_fail( "C05:dispose-unknown", "disposer called with a pointer that was never retired" ); return; }
    Obj& o = L.obj[i];
    ++o.disposed;
    if ( o.state == 0 ) note_fail( "C05:dispose-without-retire", "object o" + std::to_string( i ) + " disposed but never retired" );
    if ( o.disposed > 1 ) note_fail( "C05:double-dispose", "object o" + std::to_string( i ) + " given to its disposer " + std::to_string( o.disposed ) + " times" );
    for ( Section const& s : L.sec ) {
        // reader entered its outermost section before the retirement was invoked and has not started to leave it
        if ( s.a_late < o.t_retire_inv && ( s.b_early == 0 || d < s.b_early )) {
            std::ostringstream m;
            m << "object o" << i << " (retire invoked at " << o.t_retire_inv << ") disposed at " << d << " by t" << t << " while t" << s.thr
              << " is inside a read-side critical section it entered at " << s.a_late;
            note_fail( "C04:dispose-under-reader", m.str());
        }
    }
    o.state = 2; o.t_dispose = d;
}

struct Cfg { int capacity; std::string name; };

template <class RCU, bool HasCap>
struct make_rcu { static RCU* make( int cap ) { return new RCU( size_t( cap )); } };
template <class RCU>
struct make_rcu<RCU, false> { static RCU* make( int ) { return new RCU; } };

template <class RCU, bool HasCap>
class RcuRun: public Run
{
    Cfg cfg_; std::vector<Prog> progs_; std::vector<int> init_src_;
    Ledger L;
    std::unique_ptr<RCU> rcu_;
    atomics::atomic<char*> src_[NSRC];
    char* ptr_[MAXP][4] = {};

public:
    RcuRun( Cfg c, std::vector<Prog> p, std::vector<int> init_src ): cfg_( c ), progs_( p ), init_src_( init_src ) {}
    int nthreads() const override { return int( progs_.size()); }

    void setup() override
    {
        g_ledger = &L;
        rcu_.reset( make_rcu<RCU, HasCap>::make( cfg_.capacity ));
        for ( int i = 0; i < NSRC; ++i )
            src_[i].store( i < int( init_src_.size()) && init_src_[i] >= 0 ? obj_ptr( init_src_[i] ) : nullptr, atomics::memory_order_relaxed );
    }

    void retire_obj( int i )
    {
        Obj& o = L.obj[i];
        o.state = 1; o.t_retire_inv = cds_verif::stamp();
        RCU::retire_ptr( obj_ptr( i ), disposer );
    }

    void check_sync_return( int me, uint64_t inv )
    {
        uint64_t now = cds_verif::stamp();
        for ( Section const& s : L.sec )
            if ( s.thr != me && s.a_late < inv && ( s.b_early == 0 || s.b_early > now )) {
                std::ostringstream m;
                m << "synchronize() called by t" << me << " at " << inv << " returned at " << now << " while t" << s.thr << " is still inside the read-side section it entered at " << s.a_late;
                note_fail( "C04:synchronize-returned-early", m.str());
            }
    }

    void exec( int t, Ins const& in )
    {
        int me = t + 1;
        switch ( in.op ) {
        case ATTACH: cds::threading::Manager::attachThread(); L.log << " t" << me << ":attach"; break;
        case DETACH: cds::threading::Manager::detachThread(); L.log << " t" << me << ":detach"; break;
        case LOCK:
            RCU::access_lock();
            if ( L.depth[me]++ == 0 ) { L.sec.push_back( Section{ me, cds_verif::stamp(), 0 } ); L.cur_sec[me] = int( L.sec.size()) - 1; }
            L.log << " t" << me << ":lock";
            break;
        case UNLOCK:
            if ( --L.depth[me] == 0 ) { L.sec[size_t( L.cur_sec[me] )].b_early = cds_verif::stamp(); L.cur_sec[me] = -1; }
            RCU::access_unlock();
            L.log << " t" << me << ":unlock";
            break;
        case LOAD:
            ptr_[me][in.a] = src_[in.b].load( atomics::memory_order_acquire );
            L.log << " t" << me << ":load(s" << in.b << ")=o" << obj_idx( ptr_[me][in.a] );
            break;
        case DEREF: {
            int i = obj_idx( ptr_[me][in.a] );
            if ( i >= 0 ) {
                L.log << " t" << me << ":deref(o" << i << ")";
                if ( L.obj[i].state == 2 ) {
                    std::ostringstream m;
                    m << "t" << me << " dereferences o" << i << " inside the read-side section in which it loaded the pointer, but the object was disposed at " << L.obj[i].t_dispose;
                    note_fail( "C04:use-after-dispose", m.str());
                }
            }
            break;
        }
        case SWAPRET: {
            char* old = src_[in.a].exchange( in.b >= 0 ? obj_ptr( in.b ) : nullptr, atomics::memory_order_acq_rel );
            int i = obj_idx( old );
            L.log << " t" << me << ":swap(s" << in.a << ",o" << in.b << ")=o" << i;
            if ( i >= 0 ) { L.log << ",retire"; retire_obj( i ); }
            break;
        }
        case RETIRE: L.log << " t" << me << ":retire(o" << in.a << ")"; retire_obj( in.a ); break;
        case BATCH: {
            L.log << " t" << me << ":batch_retire(o" << in.a << "..o" << in.a + in.b - 1 << ")";
            std::vector<cds::urcu::retired_ptr> v;
            for ( int k = 0; k < in.b; ++k ) { Obj& o = L.obj[in.a + k]; o.state = 1; o.t_retire_inv = cds_verif::stamp(); v.push_back( cds::urcu::retired_ptr( obj_ptr( in.a + k ), disposer )); }
            RCU::batch_retire( v.begin(), v.end());
            break;
        }
        case SYNC: {
            L.log << " t" << me << ":synchronize";
            uint64_t inv = cds_verif::stamp();
            RCU::synchronize();
            check_sync_return( me, inv );
            break;
        }
        default: break;
        }
    }

    void run_range( int t, int phase )
    {
        Prog const& p = progs_[t];
        bool has_begin = false; for ( auto const& in : p ) if ( in.op == BEGIN ) has_begin = true;
        int cur = has_begin ? 0 : 1;
        for ( auto const& in : p ) {
            if ( in.op == BEGIN ) { cur = 1; continue; }
            if ( in.op == END ) { cur = 2; continue; }
            if ( cur == phase ) exec( t, in );
        }
    }
    void prologue( int t ) override { run_range( t, 0 ); }
    void thread( int t ) override { run_range( t, 1 ); }
    void epilogue( int t ) override { run_range( t, 2 ); }

    void teardown() override { rcu_.reset(); L.log << " ctl:destroy-singleton"; }

    void check( Result& r ) override
    {
        g_ledger = nullptr;
        r.description = cfg_.name + ":" + L.log.str();
        r.outcome_hash = hash_str( L.log.str());
        r.nontrivial = !L.sec.empty();
        if ( !L.fail_sig.empty()) { r.fail( L.fail_sig, L.fail_msg ); return; }
        if ( vh::wants( "C05" )) {
            for ( int i = 0; i < NOBJ; ++i ) {
                Obj& o = L.obj[i];
                if ( o.state == 1 && o.disposed == 0 ) { r.fail( "C05:never-disposed", "object o" + std::to_string( i ) + " was retired but never disposed, even by destruction of the RCU singleton" ); return; }
                if ( o.disposed > 1 ) { r.fail( "C05:double-dispose", "object o" + std::to_string( i ) + " disposed " + std::to_string( o.disposed ) + " times" ); return; }
            }
        }
    }
};

std::vector<Scenario> g_scen;

template <class RCU, bool HasCap>
void add( std::string const& flavour, int cap, std::string const& id, std::vector<Prog> p, std::vector<int> init_src, int tier, int bq, int bt, unsigned horizon = 20000 )
{
    Cfg c; c.capacity = cap; c.name = flavour + ( HasCap ? "-cap" + std::to_string( cap ) : std::string());
    Scenario s; s.id = c.name + "/" + id;
    s.make = [=]() { return std::unique_ptr<Run>( new RcuRun<RCU, HasCap>( c, p, init_src )); };
    s.tier = tier; s.bound_quick = bq; s.bound_thorough = bt; s.horizon = horizon;
    g_scen.push_back( s );
}

template <class RCU, bool HasCap>
void family( std::string const& flavour, int cap, bool heavy )
{
    int bq = 2, bt = heavy ? 3 : 4;
    // reader (nested) vs writer that retires and synchronizes
    {
        Prog rd = { {ATTACH,0,0}, {BEGIN,0,0}, {LOCK,0,0}, {LOAD,0,0}, {DEREF,0,0}, {LOCK,0,0}, {DEREF,0,0}, {UNLOCK,0,0}, {DEREF,0,0}, {UNLOCK,0,0}, {END,0,0}, {DETACH,0,0} };
        Prog wr = { {ATTACH,0,0}, {BEGIN,0,0}, {SWAPRET,0,1}, {SYNC,0,0}, {END,0,0}, {DETACH,0,0} };
        add<RCU, HasCap>( flavour, cap, "reader-nested|swap-sync", { rd, wr }, { 0 }, 0, bq, bt );
    }
    // writer fills the buffer: reclamation by overflow, not by an explicit synchronize
    {
        Prog rd = { {ATTACH,0,0}, {BEGIN,0,0}, {LOCK,0,0}, {LOAD,0,0}, {DEREF,0,0}, {DEREF,0,0}, {UNLOCK,0,0}, {END,0,0}, {DETACH,0,0} };
        Prog wr = { {ATTACH,0,0}, {BEGIN,0,0}, {SWAPRET,0,1} };
        for ( int k = 0; k < cap + 1; ++k ) wr.push_back( Ins{ RETIRE, 10 + k, 0 } );
        wr.push_back( Ins{ END,0,0 } ); wr.push_back( Ins{ DETACH,0,0 } );
        add<RCU, HasCap>( flavour, cap, "reader|swap-overflow", { rd, wr }, { 0 }, 0, bq, bt );
    }
    // two readers, one writer
    {
        Prog r1 = { {ATTACH,0,0}, {BEGIN,0,0}, {LOCK,0,0}, {LOAD,0,0}, {DEREF,0,0}, {UNLOCK,0,0}, {END,0,0}, {DETACH,0,0} };
        Prog r2 = { {ATTACH,0,0}, {BEGIN,0,0}, {LOCK,0,0}, {LOAD,0,0}, {DEREF,0,0}, {DEREF,0,0}, {UNLOCK,0,0}, {LOCK,0,0}, {LOAD,0,0}, {DEREF,0,0}, {UNLOCK,0,0}, {END,0,0}, {DETACH,0,0} };
        Prog wr = { {ATTACH,0,0}, {BEGIN,0,0}, {SWAPRET,0,1}, {SYNC,0,0}, {SWAPRET,0,2}, {END,0,0}, {DETACH,0,0} };
        add<RCU, HasCap>( flavour, cap, "reader|reader2|swap-sync-swap", { r1, r2, wr }, { 0 }, 0, 2, 3 );
    }
    // two writers (concurrent synchronize / racing retirers on a nearly full buffer) and a reader
    {
        Prog rd = { {ATTACH,0,0}, {BEGIN,0,0}, {LOCK,0,0}, {LOAD,0,0}, {LOAD,1,1}, {DEREF,0,0}, {DEREF,1,0}, {UNLOCK,0,0}, {END,0,0}, {DETACH,0,0} };
        Prog w1 = { {ATTACH,0,0}, {BEGIN,0,0}, {SWAPRET,0,2}, {RETIRE,10,0}, {END,0,0}, {DETACH,0,0} };
        Prog w2 = { {ATTACH,0,0}, {BEGIN,0,0}, {SWAPRET,1,3}, {SYNC,0,0}, {END,0,0}, {DETACH,0,0} };
        add<RCU, HasCap>( flavour, cap, "reader|w-retire|w-sync", { rd, w1, w2 }, { 0, 1 }, 0, 2, 3 );
    }
    // the case that needs both phase flips of a grace period: a reader caught between reading the global phase and publishing it,
    // one complete synchronize() in between, then a retire + synchronize
    {
        Prog rd = { {ATTACH,0,0}, {BEGIN,0,0}, {LOCK,0,0}, {LOAD,0,0}, {DEREF,0,0}, {DEREF,0,0}, {UNLOCK,0,0}, {END,0,0}, {DETACH,0,0} };
        Prog w1 = { {ATTACH,0,0}, {BEGIN,0,0}, {SYNC,0,0}, {END,0,0}, {DETACH,0,0} };
        Prog w2 = { {ATTACH,0,0}, {BEGIN,0,0}, {SWAPRET,0,1}, {SYNC,0,0}, {END,0,0}, {DETACH,0,0} };
        add<RCU, HasCap>( flavour, cap, "reader|sync|swap-sync", { rd, w1, w2 }, { 0 }, 0, 2, 3 );
        Prog w3 = { {ATTACH,0,0}, {BEGIN,0,0}, {SYNC,0,0}, {SWAPRET,0,1}, {SYNC,0,0}, {END,0,0}, {DETACH,0,0} };
        add<RCU, HasCap>( flavour, cap, "reader|sync-swap-sync", { rd, w3 }, { 0 }, 0, 3, 4 );
    }
    // sequential histories for exactly-once (C05): retire / batch / synchronize / destruct
    {
        Prog p = { {ATTACH,0,0}, {RETIRE,1,0}, {BATCH,10,cap + 2}, {SYNC,0,0}, {RETIRE,2,0}, {BATCH,20,cap}, {RETIRE,3,0}, {DETACH,0,0} };
        add<RCU, HasCap>( flavour, cap, "seq-retire-batch-sync", { p }, {}, 0, 0, 0 );
        Prog q = { {ATTACH,0,0}, {RETIRE,1,0}, {DETACH,0,0} };      // left in the buffer: freed by destruction of the singleton
        add<RCU, HasCap>( flavour, cap, "seq-leftover", { q }, {}, 0, 0, 0 );
    }
    // two racing retirers on a full buffer
    {
        Prog w1 = { {ATTACH,0,0}, {BEGIN,0,0}, {RETIRE,1,0}, {RETIRE,2,0}, {END,0,0}, {DETACH,0,0} };
        Prog w2 = { {ATTACH,0,0}, {BEGIN,0,0}, {RETIRE,3,0}, {RETIRE,4,0}, {END,0,0}, {DETACH,0,0} };
        Prog pre = w1; pre.insert( pre.begin() + 1, Ins{ BATCH, 20, cap > 1 ? cap - 1 : 0 } );
        add<RCU, HasCap>( flavour, cap, "retire-race-full", { pre, w2 }, {}, 0, bq, bt );
    }
    // synchronize() pops an object that is not expired yet (it was retired after the epoch was advanced) and has to put it back:
    // meanwhile the other thread has refilled the buffer
    if ( HasCap && cap <= 2 ) {
        Prog m = { {ATTACH,0,0}, {BEGIN,0,0}, {SYNC,0,0}, {END,0,0}, {DETACH,0,0} };
        Prog w = { {ATTACH,0,0}, {BATCH,20,cap - 1}, {BEGIN,0,0}, {RETIRE,2,0} };
        for ( int k = 0; k < cap; ++k ) w.push_back( Ins{ RETIRE, 3 + k, 0 } );
        w.push_back( Ins{END,0,0} ); w.push_back( Ins{DETACH,0,0} );
        add<RCU, HasCap>( flavour, cap, "sync-repush|refill", { m, w }, {}, 0, 3, 3 );
    }
}

} // namespace

// signal-handling RCU: interposed signal delivery (the real sigaction / pthread_kill are never called for SIGUSR1)
#ifdef CDS_URCU_SIGNAL_HANDLING_ENABLED
#endif

int main( int argc, char** argv )
{
    vh::take_property( argc, argv, "C04" );
    cds::Initialize();

    typedef cds::urcu::gc< cds::urcu::general_instant< cds_verif::mutex > > gpi;
    typedef cds::urcu::gc< cds::urcu::general_buffered< cds::container::VyukovMPMCCycleQueue< cds::urcu::epoch_retired_ptr >, cds_verif::mutex > > gpb;
    typedef cds::urcu::gc< cds::urcu::general_threaded< cds::container::VyukovMPSCCycleQueue< cds::urcu::epoch_retired_ptr >, cds_verif::mutex > > gpt;

    family<gpi, false>( "general_instant", 0, false );
    family<gpb, true>( "general_buffered", 2, false );
    family<gpb, true>( "general_buffered", 4, true );
    family<gpt, true>( "general_threaded", 2, true );
    family<gpt, true>( "general_threaded", 4, true );
    typedef cds::urcu::gc< cds::urcu::signal_buffered< cds::container::VyukovMPMCCycleQueue< cds::urcu::epoch_retired_ptr >, cds_verif::mutex > > shb;
    family<shb, true>( "signal_buffered", 2, true );
    family<shb, true>( "signal_buffered", 4, true );

    Options o; o.property = vh::property().c_str();
    o.default_bound_quick = 2; o.default_bound_thorough = 3;
    return main_run( argc, argv, g_scen, o );
}
