// C12: WeakRingBuffer is an exact SPSC FIFO for fixed and variable-size records (DESIGN.md 9/C12)
#include "common.h"
#include "smr_holders.h"
#include <cds/container/weak_ringbuffer.h>
#include <sstream>
#include <cstring>

using namespace vh;
using namespace cdsmc;
namespace cc = cds::container;

namespace {

// payload type of the typed ring: reports its construction / copy / read to the happens-before tracker (7.6)
struct Pay {
    long v;
    Pay(): v( -1 ) {}
    Pay( long x ): v( x ) { cds_verif::hb_access( this, true, "construct" ); }
    Pay( Pay const& o ): v( o.read()) { cds_verif::hb_access( this, true, "copy-construct" ); }
    Pay& operator=( Pay const& o ) { long x = o.read(); cds_verif::hb_access( this, true, "assign" ); v = x; return *this; }
    ~Pay() { cds_verif::hb_access( this, true, "destroy" ); cds_verif::hb_forget( this ); }
    long read() const { cds_verif::hb_access( this, false, "read" ); return v; }
};

template <bool Exp2> struct ring_traits: public cc::weak_ringbuffer::traits {
    typedef cds::opt::v::uninitialized_dynamic_buffer<void*, CDS_DEFAULT_ALLOCATOR, Exp2> buffer;
};

// ---------------------------------------------------------------------------------------------
// typed ring: producer ops push1 / pushN, consumer ops pop1 / popN / front+pop_front
// ---------------------------------------------------------------------------------------------
struct TOp { char kind; int n; };       // 'p' push n items (n == 1: single-item form), 'q' pop n items, 'f' front()+pop_front()

template <bool Exp2>
class TypedRun: public Run
{
    typedef cc::WeakRingBuffer<Pay, ring_traits<Exp2>> ring;
    int cap_; std::vector<TOp> prod_, cons_; int prefill_;
    std::unique_ptr<ring> r_;
    struct Ev { int thread; char kind; int n; bool ok; uint64_t inv, ret; std::vector<long> vals; };
    std::vector<Ev> ev_;
    long next_ = 1;
    std::ostringstream log_;
    std::string fail_sig_, fail_msg_;

public:
    TypedRun( int cap, std::vector<TOp> p, std::vector<TOp> c, int prefill ): cap_( cap ), prod_( p ), cons_( c ), prefill_( prefill ) {}
    int nthreads() const override { return 2; }

    void do_op( int t, TOp const& o )
    {
        Ev e; e.thread = t; e.kind = o.kind; e.n = o.n; cds_verif::stamp_inv( &e.inv );
        if ( o.kind == 'p' ) {
            std::vector<Pay> arr; for ( int i = 0; i < o.n; ++i ) { e.vals.push_back( next_ ); arr.emplace_back( next_++ ); }
            e.ok = o.n == 1 ? r_->push( arr[0] ) : r_->push( arr.data(), size_t( o.n ));
            if ( !e.ok ) next_ -= o.n;      // values not consumed: reuse keeps the expected sequence dense
        }
        else if ( o.kind == 'q' ) {
            std::vector<Pay> arr( size_t( o.n ));
            e.ok = o.n == 1 ? r_->pop( arr[0] ) : r_->pop( arr.data(), size_t( o.n ));
            if ( e.ok ) for ( auto& p : arr ) e.vals.push_back( p.read());
        }
        else {
            Pay* p = r_->front();
            e.ok = p != nullptr;
            if ( p ) { e.vals.push_back( p->read()); if ( !r_->pop_front()) { fail_sig_ = "C12:pop-front-failed"; fail_msg_ = "pop_front() failed right after front() returned an element"; } }
        }
        e.ret = cds_verif::stamp();
        log_ << " t" << t << ":" << o.kind << o.n << ( e.ok ? "+" : "-" );
        for ( long v : e.vals ) log_ << "," << v;
        ev_.push_back( e );
    }

    void setup() override
    {
        r_.reset( new ring( size_t( cap_ )));
        // cycle the ring once so that positions are past the first lap, then prefill
        for ( int i = 0; i < cap_ + 1; ++i ) { Pay p( 9000 + i ); r_->push( p ); Pay q; r_->pop( q ); }
        for ( int i = 0; i < prefill_; ++i ) do_op( -1, TOp{ 'p', 1 } );
    }
    void thread( int t ) override { for ( auto const& o : ( t == 0 ? prod_ : cons_ )) do_op( t, o ); }
    void teardown() override
    {
        for ( int i = 0; i < cap_ + 2; ++i ) { do_op( -1, TOp{ 'q', 1 } ); if ( !ev_.back().ok ) break; }
        if ( !r_->empty()) { fail_sig_ = "C12:not-empty"; fail_msg_ = "ring not empty after draining it"; }
        r_.reset();
    }

    void check( Result& r ) override
    {
        r.description = "cap" + std::to_string( cap_ ) + log_.str();
        r.outcome_hash = hash_str( log_.str());
        bool nt = false;
        for ( auto const& a : ev_ ) for ( auto const& b : ev_ ) if ( a.thread == 0 && b.thread == 1 && a.inv < b.ret && b.inv < a.ret ) nt = true;
        r.nontrivial = nt;
        if ( !vh::wants( "C12" )) return;
        if ( !fail_sig_.empty()) { r.fail( fail_sig_, fail_msg_ ); return; }
        // exact FIFO: concatenated popped values == concatenated successfully pushed values, in order
        std::vector<long> pushed, popped;
        for ( auto const& e : ev_ ) { if ( e.kind == 'p' && e.ok ) pushed.insert( pushed.end(), e.vals.begin(), e.vals.end()); if ( e.kind != 'p' && e.ok ) popped.insert( popped.end(), e.vals.begin(), e.vals.end()); }
        if ( pushed != popped ) { r.fail( "C12:not-fifo", "the consumer did not receive exactly the pushed elements in push order" ); return; }
        // a pop of n elements may succeed only after n elements were pushed; failures need a justifying instant (weakest reading)
        for ( auto const& e : ev_ ) {
            // elements certainly present during the whole call: pushed (returned) before inv, minus everything popped (by the single consumer) before
            long pushed_before_inv = 0, pushed_before_ret = 0, popped_before = 0, popped_done_before_inv = 0;
            for ( auto const& o : ev_ ) {
                if ( o.kind == 'p' && o.ok && o.ret < e.inv ) pushed_before_inv += o.n;
                if ( o.kind == 'p' && o.ok && o.inv < e.ret ) pushed_before_ret += o.n;
                if ( o.kind != 'p' && o.ok && o.ret < e.inv ) { popped_before += long( o.vals.size()); popped_done_before_inv += long( o.vals.size()); }
            }
            if ( e.kind != 'p' && !e.ok ) {
                long need = e.kind == 'q' ? e.n : 1;
                if ( pushed_before_inv - popped_before >= need ) { r.fail( "C12:spurious-empty", "pop/front failed although enough elements were present during the whole call" ); return; }
            }
            if ( e.kind == 'p' && !e.ok ) {
                // free space during the call is at least cap - (pushed invoked before ret - popped completed before inv)
                long max_used = pushed_before_ret - popped_done_before_inv;
                if ( cap_real() - max_used >= e.n ) { r.fail( "C12:spurious-full", "push failed although the free space was at least the request during the whole call" ); return; }
            }
        }
    }
    long cap_real() const { long c = cap_; if ( Exp2 ) { long p = 1; while ( p < c ) p <<= 1; c = p; } return c; }
};

// ---------------------------------------------------------------------------------------------
// WeakRingBuffer<void>: variable-size records
// ---------------------------------------------------------------------------------------------
template <bool Exp2>
class VoidRun: public Run
{
    struct vtraits: public cc::weak_ringbuffer::traits { typedef cds::opt::v::uninitialized_dynamic_buffer<uint8_t, CDS_DEFAULT_ALLOCATOR, Exp2> buffer; };
    typedef cc::WeakRingBuffer<void, vtraits> ring;
    int cap_; std::vector<int> sizes_; int consumes_; int skew_;
    std::unique_ptr<ring> r_;
    struct Push { int size; bool ok; uint64_t inv, ret; int id; };
    struct Pop { bool got; int size; int id; bool bytes_ok; uint64_t inv, ret; };
    std::vector<Push> pushes_; std::vector<Pop> pops_;
    std::ostringstream log_;
    int next_id_ = 1;
    // producer-side model of positions, to justify failures
    long mback_ = 0;

    static size_t real_size( size_t s ) { return (( s + 7 ) & ~size_t( 7 )) + 8; }

public:
    VoidRun( int cap, std::vector<int> sizes, int consumes, int skew ): cap_( cap ), sizes_( sizes ), consumes_( consumes ), skew_( skew ) {}
    int nthreads() const override { return 2; }

    void push( int t, int size )
    {
        Push p; p.size = size; p.id = next_id_; cds_verif::stamp_inv( &p.inv );
        uint8_t data[256];
        for ( int i = 0; i < size; ++i ) data[i] = uint8_t( p.id * 37 + i );
        // two-step form so that the harness can report its own write of the record bytes to the HB tracker
        void* buf = r_->back( size_t( size ));
        if ( buf ) { cds_verif::hb_access( buf, true, "record write" ); memcpy( buf, data, size_t( size )); r_->push_back(); }
        p.ok = buf != nullptr;
        p.ret = cds_verif::stamp();
        if ( p.ok ) ++next_id_;
        log_ << " t" << t << ":push(" << size << ")" << ( p.ok ? "+" : "-" );
        pushes_.push_back( p );
    }
    void pop( int t )
    {
        Pop p; cds_verif::stamp_inv( &p.inv ); p.bytes_ok = true; p.size = 0; p.id = 0;
        auto f = r_->front();
        p.got = f.first != nullptr;
        if ( p.got ) {
            cds_verif::hb_access( f.first, false, "record read" );
            p.size = int( f.second );
            uint8_t const* b = static_cast<uint8_t const*>( f.first );
            // the id is recoverable from the first byte pattern: find the push with this size whose pattern matches
            for ( auto const& q : pushes_ ) if ( q.ok || true ) {
                bool m = q.size == p.size;
                for ( int i = 0; m && i < p.size; ++i ) m = b[i] == uint8_t( q.id * 37 + i );
                if ( m ) { p.id = q.id; break; }
            }
            p.bytes_ok = p.id != 0;
            cds_verif::hb_forget( f.first );
            if ( !r_->pop_front()) p.bytes_ok = false;
        }
        p.ret = cds_verif::stamp();
        log_ << " t" << t << ":pop=" << ( p.got ? std::to_string( p.size ) + "#" + std::to_string( p.id ) : std::string( "none" ));
        pops_.push_back( p );
    }

    void setup() override
    {
        r_.reset( new ring( size_t( cap_ )));
        // move the positions off zero: 'skew' 16-byte records pushed and popped
        for ( int i = 0; i < skew_; ++i ) { uint8_t z[8] = {}; r_->push_back( z, 8 ); r_->front(); r_->pop_front(); }
    }
    void thread( int t ) override
    {
        if ( t == 0 ) for ( int s : sizes_ ) push( 0, s );
        else for ( int i = 0; i < consumes_; ++i ) pop( 1 );
    }
    void teardown() override
    {
        for ( int i = 0; i < 8; ++i ) { pop( -1 ); if ( !pops_.back().got ) break; }
        r_.reset();
    }
    void check( Result& r ) override
    {
        r.description = "cap" + std::to_string( cap_ ) + ( Exp2 ? "" : "n" ) + " skew" + std::to_string( skew_ ) + log_.str();
        r.outcome_hash = hash_str( log_.str());
        bool nt = false;
        for ( auto const& a : pushes_ ) for ( auto const& b : pops_ ) if ( a.inv < b.ret && b.inv < a.ret ) nt = true;
        r.nontrivial = nt;
        if ( !vh::wants( "C12" )) return;
        // every popped record: exact size and bytes of a pushed record, in push order, each exactly once
        int expect = 1;
        for ( auto const& p : pops_ ) {
            if ( !p.got ) continue;
            if ( !p.bytes_ok ) { r.fail( "C12:corrupt-record", "a record was returned whose size/bytes match no pushed record (or pop_front failed after front)" ); return; }
            if ( p.id != expect ) { r.fail( "C12:not-fifo", "records returned out of push order or twice: got #" + std::to_string( p.id ) + ", expected #" + std::to_string( expect )); return; }
            ++expect;
        }
        int ok_pushes = 0; for ( auto const& p : pushes_ ) if ( p.ok ) ++ok_pushes;
        if ( expect - 1 != ok_pushes ) { r.fail( "C12:lost-record", std::to_string( ok_pushes ) + " records pushed, " + std::to_string( expect - 1 ) + " delivered (including the final drain)" ); return; }
        // front() == none is wrong if a record whose push returned before the call has not been popped yet
        for ( auto const& p : pops_ ) {
            if ( p.got ) continue;
            int pushed = 0, popped = 0;
            for ( auto const& q : pushes_ ) if ( q.ok && q.ret < p.inv ) ++pushed;
            for ( auto const& q : pops_ ) if ( q.got && q.ret < p.inv ) ++popped;
            if ( pushed > popped ) { r.fail( "C12:spurious-empty", "front() reported empty although a completely pushed record was waiting" ); return; }
        }
        // a failed push must be justified: replay the producer's positions assuming only the pops that returned before the call happened
        {
            long cap = cap_real(), back = long( skew_ ) * 16, front_base = back;
            std::vector<long> rec_end;      // absolute position after each successful record (incl. tail padding before it)
            for ( auto const& p : pushes_ ) {
                long rs = long( real_size( size_t( p.size )));
                long m = back % cap, tail = cap - m;
                long need = rs + ( tail < rs ? tail : 0 );
                if ( p.ok ) { back += need; rec_end.push_back( back ); continue; }
                // front position certainly reached before the call: records popped (returned) before p.inv
                int popped = 0; for ( auto const& q : pops_ ) if ( q.got && q.ret < p.inv ) ++popped;
                long front = popped ? rec_end[size_t( popped ) - 1] : front_base;
                // the consumer frees a record's bytes (and the tail padding before the next one only when it reaches it)
                long used = back - front;
                if ( cap - used >= need ) { r.fail( "C12:spurious-full", "push of " + std::to_string( p.size ) + " bytes failed although " + std::to_string( cap - used ) + " bytes were free during the whole call and " + std::to_string( need ) + " were needed" ); return; }
            }
        }
    }
    long cap_real() const { long c = cap_; if ( Exp2 ) { long p = 1; while ( p < c ) p <<= 1; c = p; } return c; }
};

std::vector<Scenario> g_scen;

void add( std::string const& id, std::function<std::unique_ptr<Run>()> mk, int tier, int bq, int bt )
{
    Scenario s; s.id = id; s.make = mk; s.tier = tier; s.bound_quick = bq; s.bound_thorough = bt; g_scen.push_back( s );
}

std::string tops( std::vector<TOp> const& v ) { std::string s; for ( auto const& o : v ) { s += o.kind; s += std::to_string( o.n ); } return s; }

template <class T>
std::vector<std::vector<T>> seqs_upto( std::vector<T> const& alpha, size_t maxlen )
{
    std::vector<std::vector<T>> out, cur = { {} };
    for ( size_t l = 1; l <= maxlen; ++l ) {
        std::vector<std::vector<T>> next;
        for ( auto const& s : cur ) for ( auto const& a : alpha ) { auto t = s; t.push_back( a ); next.push_back( t ); }
        out.insert( out.end(), next.begin(), next.end()); cur = next;
    }
    return out;
}

} // namespace

int main( int argc, char** argv )
{
    vh::take_property( argc, argv, "C12" );
    cds::Initialize();

    // typed ring: capacities 2, 4 (power of two) and 3 (not)
    {
        std::vector<TOp> palpha = { { 'p', 1 }, { 'p', 2 }, { 'p', 3 } }, calpha = { { 'q', 1 }, { 'q', 2 }, { 'f', 1 } };
        auto ps = seqs_upto( palpha, 2 ), cs = seqs_upto( calpha, 2 );
        int n = 0;
        for ( int cap : { 2, 3, 4 } ) for ( int prefill : { 0, 1 } ) for ( auto const& p : ps ) for ( auto const& c : cs ) {
            bool feasible = true; for ( auto const& o : p ) if ( o.n >= cap + ( cap == 3 ? 0 : 0 ) && o.n > cap ) feasible = false;   // batches larger than the ring are outside the contract (asserted)
            for ( auto const& o : c ) if ( o.n > cap ) feasible = false;
            if ( !feasible ) continue;
            int tier = ( n++ % 2 ) == 0 ? 0 : 1;
            std::string id = "typed-cap" + std::to_string( cap ) + "-pre" + std::to_string( prefill ) + "/" + tops( p ) + "|" + tops( c );
            if ( cap == 3 ) add( id, [=] { return std::unique_ptr<Run>( new TypedRun<false>( cap, p, c, prefill )); }, tier, 4, 6 );
            else add( id, [=] { return std::unique_ptr<Run>( new TypedRun<true>( cap, p, c, prefill )); }, tier, 4, 6 );
        }
    }
    // WeakRingBuffer<void>: capacities 32, 64 (power of two) and 40, 48 (not); sizes within the asserted contract real_size < capacity
    {
        int n = 0;
        for ( int cap : { 32, 40, 48, 64 } ) {
            std::vector<int> alpha = { 1, 7, 8, 9, 16, cap - 16 };
            for ( int skew : { 0, 1 } ) {
                auto ss = seqs_upto( alpha, 4 );
                for ( auto const& s : ss ) {
                    int tier = s.size() <= 2 ? 0 : ( s.size() == 3 && ( n % 4 ) == 0 ? 0 : 1 );
                    ++n;
                    std::string id = "void-cap" + std::to_string( cap ) + "-skew" + std::to_string( skew ) + "/";
                    for ( int v : s ) id += std::to_string( v ) + ",";
                    int consumes = int( s.size());
                    bool exp2 = cap == 32 || cap == 64;
                    if ( exp2 ) add( id, [=] { return std::unique_ptr<Run>( new VoidRun<true>( cap, s, consumes, skew )); }, tier, 3, 4 );
                    else add( id, [=] { return std::unique_ptr<Run>( new VoidRun<false>( cap, s, consumes, skew )); }, tier, 3, 4 );
                }
            }
        }
    }

    Options o; o.property = vh::property().c_str();
    o.default_bound_quick = 3; o.default_bound_thorough = 5;
    return main_run( argc, argv, g_scen, o );
}
