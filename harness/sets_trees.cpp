// C15: skip lists and trees are linearizable ordered sets and maps (DESIGN.md 9/C15); C18 post-conditions.
#include "sets.h"
#include "seq.h"

#ifndef FAMILY
#   define FAMILY 1
#endif

#if FAMILY == 1
#   include <cds/container/skip_list_set_hp.h>
#   include <cds/container/skip_list_set_dhp.h>
#elif FAMILY == 2
#   include <cds/container/skip_list_set_rcu.h>
#elif FAMILY == 3
#   include <cds/container/ellen_bintree_set_hp.h>
#   include <cds/container/ellen_bintree_set_dhp.h>
#elif FAMILY == 4
#   include <cds/container/ellen_bintree_set_rcu.h>
#elif FAMILY == 6
#   include "maps.h"
#   include <cds/container/skip_list_map_hp.h>
#   include <cds/container/skip_list_map_rcu.h>
#   include <cds/container/ellen_bintree_map_hp.h>
#elif FAMILY == 5
#   include <cds/container/bronson_avltree_map_rcu.h>
#   include <cds/sync/pool_monitor.h>
#   include <cds/memory/vyukov_queue_pool.h>
#endif

using namespace vh;
using namespace cdsmc;
namespace cc = cds::container;

namespace {

const char* prop() { return vh::property() == "C18" ? "C18" : vh::property() == "C20" ? "C20" : "C15"; }
std::vector<Scenario> g_scen;

// scripted tower heights for skip lists: the level sequence is part of the configuration ("towers forced high and low")
int g_script = 0;
struct scripted_levels {
    static unsigned int const c_nUpperBound = 4;
    unsigned n = 0;
    unsigned int operator()()
    {
        static const unsigned S[3][5] = { { 0, 0, 0, 0, 0 }, { 3, 2, 3, 1, 3 }, { 0, 3, 1, 0, 2 } };
        return S[g_script % 3][n++ % 5];
    }
};

struct caps_tree: caps_hp { typedef std::true_type has_minmax; };
struct caps_tree_rcu: caps_rcu { typedef std::true_type has_minmax; };
struct caps_ellen: caps_tree { typedef std::false_type has_iter; typedef std::false_type ordered_iter; };
struct caps_ellen_rcu: caps_tree_rcu { typedef std::false_type has_iter; typedef std::false_type ordered_iter; };
struct caps_bronson: caps_tree_rcu { typedef std::false_type has_iter; typedef std::false_type ordered_iter; typedef std::false_type has_get; };

// extract_min / extract_max window rule (DESIGN 7.2): the key returned must not be larger (smaller) than a key that was present
// during the whole call
template <class Base>
struct TreeAdapter: Base
{
    using Base::Base;
    static bool inserts( Op const& o ) { return o.res && ( o.op == INS || o.op == INS_F || o.op == EMPLACE || ( o.op == UPD_INS && o.res2 )); }
    static bool removes( Op const& o, long key ) { return o.res && ((( o.op == DEL || o.op == DEL_F || o.op == EXTRACT || o.op == UNLINK ) && o.arg == key ) || (( o.op == EXT_MIN || o.op == EXT_MAX ) && o.res2 == key )); }
    void post_check( Result& r, History const& h )
    {
        Base::post_check( r, h );
        if ( r.failed || !vh::sig_enabled( "C15:x" )) return;
        for ( Op const& e : h.ops ) {
            if (( e.op != EXT_MIN && e.op != EXT_MAX ) || !e.res ) continue;
            for ( int j : this->cfg.keys ) {
                if ( j <= 0 ) continue;
                if ( e.op == EXT_MIN ? !( j < e.res2 ) : !( j > e.res2 )) continue;
                for ( Op const& i : h.ops ) {
                    if ( !inserts( i ) || i.arg != j || !( i.ret < e.inv )) continue;
                    bool removed = false;
                    for ( Op const& d : h.ops ) if ( &d != &e && removes( d, j ) && d.inv < e.ret && d.ret > i.inv ) removed = true;
                    if ( !removed ) {
                        r.fail( e.op == EXT_MIN ? "C15:extract-min-not-minimal" : "C15:extract-max-not-maximal",
                            std::string( e.op == EXT_MIN ? "extract_min" : "extract_max" ) + " returned key " + std::to_string( e.res2 ) + " although key " + std::to_string( j ) + " was present during the whole call" );
                        return;
                    }
                }
            }
        }
    }
};

template <class Set, class Smr, class Caps>
void family( std::string const& tname, int step, int bq = 2, int bt = 3, bool cur_quick = true, int step1 = 1 )
{
    typedef TreeAdapter<SetAdapter<Set, Smr, Caps, prop>> A;
    std::string base = tname + "/" + Smr::name();
    if ( vh::property() == "C20" ) {
        TProg full = { { INS, 2, 0 }, { INS, 1, 0 }, { INS, 3, 0 } };
        add_seq_scenarios<A, Caps>( g_scen, base, { 1, 2, 3 }, { 0, 1, 2, 3, 4 }, { TProg(), full }, 3, 4 );
        return;
    }
    add_set_programs<A>( g_scen, base, set_grammar( { INS, DEL, HAS }, { 1, 2 }, 2, "g" ), 2, 3, step, bq, bt, std::vector<int>(), step1 );
    std::vector<Program> cur = set_curated( true, true );
    auto P = [&]( std::string name, TProg pre, std::vector<TProg> th ) { Program p; p.name = name; p.prefix = pre; p.threads = th; cur.push_back( p ); };
    P( "min-vs-ins", { { INS, 2, 0 } }, { { { EXT_MIN, 0, 0 } }, { { INS, 1, 0 }, { HAS, 2, 0 } } } );
    P( "min-vs-min", { { INS, 1, 0 }, { INS, 2, 0 } }, { { { EXT_MIN, 0, 0 } }, { { EXT_MIN, 0, 0 }, { EXT_MIN, 0, 0 } } } );
    P( "max-vs-del", { { INS, 1, 0 }, { INS, 2, 0 } }, { { { EXT_MAX, 0, 0 }, { HAS, 1, 0 } }, { { DEL, 2, 0 }, { INS, 3, 0 } } } );
    P( "min-on-empty-vs-ins", {}, { { { EXT_MIN, 0, 0 } }, { { INS, 1, 0 } } } );
    P( "max-vs-min", { { INS, 1, 0 } }, { { { EXT_MAX, 0, 0 } }, { { EXT_MIN, 0, 0 }, { INS, 2, 0 } } } );
    // helping: del(k) || ins(k') || del(sibling)
    P( "3t-del-ins-del", { { INS, 1, 0 }, { INS, 2, 0 }, { INS, 3, 0 } }, { { { DEL, 2, 0 } }, { { INS, 4, 0 } }, { { DEL, 3, 0 } } } );
    P( "3t-min-max-ins", { { INS, 2, 0 }, { INS, 3, 0 } }, { { { EXT_MIN, 0, 0 } }, { { EXT_MAX, 0, 0 } }, { { INS, 1, 0 }, { INS, 4, 0 } } } );
    for ( auto const& p : cur ) {
        bool supported = true;
        for ( auto const& t : p.threads ) for ( auto const& o : t ) if ( o.op == GET && !Caps::has_get::value ) supported = false;
        if ( !supported ) continue;
        g_scen.push_back( make_scenario<A>( base, p, SetCfg( int( p.threads.size()), 4 ), cur_quick ? 0 : 1, p.threads.size() > 2 ? ( bq > 1 && step1 == 1 ? 2 : 1 ) : bq, p.threads.size() > 2 ? 2 : bt ));
    }
    // rotations / deep towers during a concurrent find: keys inserted in increasing order
    {
        Program p; p.name = "rotate-vs-find"; p.prefix = { { INS, 1, 0 }, { INS, 2, 0 } }; p.threads = { { { INS, 3, 0 }, { INS, 4, 0 } }, { { FIND_F, 2, 0 }, { FIND_F, 4, 0 } } };
        g_scen.push_back( make_scenario<A>( base, p, SetCfg( 2, 4 ), 0, bq, bt ));
        Program q; q.name = "rotate-vs-del"; q.prefix = { { INS, 1, 0 }, { INS, 2, 0 }, { INS, 3, 0 } }; q.threads = { { { INS, 4, 0 }, { HAS, 1, 0 } }, { { DEL, 1, 0 }, { HAS, 3, 0 } } };
        g_scen.push_back( make_scenario<A>( base, q, SetCfg( 2, 4 ), 0, bq, bt ));
    }
}

} // namespace

#if FAMILY == 1 || FAMILY == 2
namespace {
struct sk_traits: public cc::skip_list::traits { typedef item_less less; typedef cds::atomicity::item_counter item_counter; typedef scripted_levels random_level_generator; };
#if FAMILY == 1
typedef cc::SkipListSet<cds::gc::HP, Item, sk_traits> sk_hp;
typedef cc::SkipListSet<cds::gc::DHP, Item, sk_traits> sk_dhp;
#else
typedef cc::SkipListSet<rcu_gpb, Item, sk_traits> sk_rcu;
#endif
}
namespace vh {
// C18: every level is an ordered sub-list of the level below, no marked links at a quiescent point
template <class SK> std::string skip_levels( SK& s )
{
    auto& base = (typename SK::base_class&) s;
    typedef typename std::remove_reference<decltype( *base.m_Head.head())>::type node_type;
    std::vector<std::vector<int>> lvl;
    for ( unsigned l = 0; l < scripted_levels::c_nUpperBound; ++l ) {
        std::vector<int> keys;
        auto p = base.m_Head.head()->next( l ).load( atomics::memory_order_relaxed );
        int guard = 0;
        while ( p.ptr() && ++guard < 100 ) {
            if ( p.bits()) return "marked link left on level " + std::to_string( l ) + " at a quiescent point";
            node_type* n = p.ptr();
            keys.push_back( SK::base_class::node_traits::to_value_ptr( n )->m_Value.key );
            p = n->next( l ).load( atomics::memory_order_relaxed );
        }
        for ( size_t i = 1; i < keys.size(); ++i ) if ( !( keys[i - 1] < keys[i] )) return "level " + std::to_string( l ) + " is not strictly increasing";
        lvl.push_back( keys );
    }
    for ( size_t l = 1; l < lvl.size(); ++l )
        for ( int k : lvl[l] ) if ( !std::binary_search( lvl[l - 1].begin(), lvl[l - 1].end(), k )) return "key " + std::to_string( k ) + " is on level " + std::to_string( l ) + " but not on the level below";
    return std::string();
}
#if FAMILY == 1
template <> inline std::string structure_check<sk_hp>( sk_hp& s ) { return skip_levels( s ); }
template <> inline std::string structure_check<sk_dhp>( sk_dhp& s ) { return skip_levels( s ); }
#else
template <> inline std::string structure_check<sk_rcu>( sk_rcu& s ) { return skip_levels( s ); }
#endif
}
#elif FAMILY == 3 || FAMILY == 4
namespace {
struct key_ext { void operator()( int& dest, Item const& src ) const { dest = src.key; } };
struct el_traits: public cc::ellen_bintree::traits { typedef key_ext key_extractor; typedef item_less less; typedef cds::atomicity::item_counter item_counter; };
#if FAMILY == 3
typedef cc::EllenBinTreeSet<cds::gc::HP, int, Item, el_traits> el_hp;
typedef cc::EllenBinTreeSet<cds::gc::DHP, int, Item, el_traits> el_dhp;
#else
typedef cc::EllenBinTreeSet<rcu_gpb, int, Item, el_traits> el_rcu;
#endif
}
namespace vh {
#if FAMILY == 3
template <> inline std::string structure_check<el_hp>( el_hp& s ) { return s.check_consistency() ? std::string() : std::string( "EllenBinTree::check_consistency() failed at a quiescent point" ); }
template <> inline std::string structure_check<el_dhp>( el_dhp& s ) { return s.check_consistency() ? std::string() : std::string( "EllenBinTree::check_consistency() failed at a quiescent point" ); }
#else
template <> inline std::string structure_check<el_rcu>( el_rcu& s ) { return s.check_consistency() ? std::string() : std::string( "EllenBinTree::check_consistency() failed at a quiescent point" ); }
#endif
}
#elif FAMILY == 6
namespace {
struct int_less { bool operator()( int a, int b ) const { return a < b; } };
struct caps_tmap: caps_map_hp { typedef std::true_type has_minmax; };
struct caps_tmap_rcu: caps_map_rcu { typedef std::true_type has_minmax; };
struct skm_traits: public cc::skip_list::traits { typedef int_less less; typedef cds::atomicity::item_counter item_counter; typedef scripted_levels random_level_generator; };
typedef cc::SkipListMap<cds::gc::HP, int, long, skm_traits> skm_hp_t;
typedef MapWrap<skm_hp_t> skm_hp;
typedef MapWrap< cc::SkipListMap<rcu_gpb, int, long, skm_traits> > skm_rcu;
struct elm_traits: public cc::ellen_bintree::traits { typedef int_less less; typedef cds::atomicity::item_counter item_counter; };
typedef cc::EllenBinTreeMap<cds::gc::HP, int, long, elm_traits> elm_hp_t;
typedef MapWrap<elm_hp_t> elm_hp;
}
#elif FAMILY == 5
namespace {
// BronsonAVLTreeMap is a map: present it through the uniform set API (Item = key + mapped value)
template <class M>
struct BronsonWrap {
    M m;
    typedef typename M::rcu_lock rcu_lock;
    struct ExP { bool ok = false; Item it; explicit operator bool() const { return ok; } Item* operator->() { return &it; } void release() {} };
    bool insert( Item const& i ) { return m.insert( i.key, i.val ); }
    template <class F> bool insert( Item const& i, F f ) { bool ok = m.insert( i.key, i.val ); if ( ok ) { Item tmp( i ); f( tmp ); } return ok; }
    template <class F> std::pair<bool, bool> update( Item const& i, F f, bool allow )
    { return m.update( i.key, [&]( bool bNew, int const&, long& v ) { if ( bNew ) v = i.val; Item tmp( i.key, v ); f( bNew, tmp, i.key ); }, allow ); }
    bool emplace( int k, long v ) { return m.emplace( k, v ); }
    bool erase( int k ) { return m.erase( k ); }
    template <class F> bool erase( int k, F f ) { return m.erase( k, [&]( int const& key, long& v ) { Item tmp( key, v ); f( tmp ); } ); }
    ExP extract( int k ) { ExP r; auto ep = m.extract( k ); if ( ep ) { r.ok = true; r.it = Item( k, *ep ); } ep.release(); return r; }
    ExP extract_min() { ExP r; int key = 0; auto ep = m.extract_min( [&key]( int const& k ) { key = k; } ); if ( ep ) { r.ok = true; r.it = Item( key, *ep ); } ep.release(); return r; }
    ExP extract_max() { ExP r; int key = 0; auto ep = m.extract_max( [&key]( int const& k ) { key = k; } ); if ( ep ) { r.ok = true; r.it = Item( key, *ep ); } ep.release(); return r; }
    bool contains( int k ) { return m.contains( k ); }
    template <class F> bool find( int k, F f ) { return m.find( k, [&]( int const& key, long& v ) { Item tmp( key, v ); f( tmp, key ); } ); }
    size_t size() const { return m.size(); }
    bool empty() const { return m.empty(); }
    void clear() { m.clear(); }
};
struct br_traits: public cc::bronson_avltree::traits { typedef std::less<int> less; typedef cds::atomicity::item_counter item_counter; };
typedef cds::memory::vyukov_queue_pool< cds_verif::mutex > lock_pool;
struct br_pool_traits: public br_traits { typedef cds::sync::pool_monitor< lock_pool > sync_monitor; };
struct br_mutex_traits: public br_traits { typedef cds::sync::injecting_monitor< cds_verif::mutex > sync_monitor; };
typedef BronsonWrap< cc::BronsonAVLTreeMap<rcu_gpb, int, long, br_traits> > br_spin;
typedef BronsonWrap< cc::BronsonAVLTreeMap<rcu_gpb, int, long, br_pool_traits> > br_pool;
typedef BronsonWrap< cc::BronsonAVLTreeMap<rcu_gpb, int, long, br_mutex_traits> > br_mutex;
}
namespace vh {
template <> inline std::string structure_check<br_spin>( br_spin& s ) { return s.m.check_consistency() ? std::string() : std::string( "BronsonAVLTreeMap::check_consistency() failed at a quiescent point" ); }
template <> inline std::string structure_check<br_pool>( br_pool& s ) { return s.m.check_consistency() ? std::string() : std::string( "BronsonAVLTreeMap::check_consistency() failed at a quiescent point" ); }
template <> inline std::string structure_check<br_mutex>( br_mutex& s ) { return s.m.check_consistency() ? std::string() : std::string( "BronsonAVLTreeMap::check_consistency() failed at a quiescent point" ); }
}
#endif

int main( int argc, char** argv )
{
    vh::take_property( argc, argv, "C15" );
    cds::Initialize();
    // the tower script is chosen per process run through the scenario filter: three scripts = three name spaces
    for ( int i = 1; i + 1 < argc; ++i ) if ( !strcmp( argv[i], "--script" )) g_script = atoi( argv[i + 1] );

#if FAMILY == 1
    family<sk_hp, HpHolder<sk_hp::c_nHazardPtrCount + 2>, caps_tree>( "SkipListSet-script" + std::to_string( g_script ), 6 );
    family<sk_dhp, DhpHolder, caps_tree>( "SkipListSet-script" + std::to_string( g_script ), 16, 2, 3, false );
#elif FAMILY == 2
    family<sk_rcu, GpbHolder, caps_tree_rcu>( "SkipListSet-script" + std::to_string( g_script ), 8 );
#elif FAMILY == 3
    family<el_hp, HpHolder<el_hp::c_nHazardPtrCount + 2>, caps_ellen>( "EllenBinTreeSet", 32, 2, 3, true, 4 );
    family<el_dhp, DhpHolder, caps_ellen>( "EllenBinTreeSet", 96, 2, 3, false, 12 );
#elif FAMILY == 4
    family<el_rcu, GpbHolder, caps_ellen_rcu>( "EllenBinTreeSet", 32, 2, 3, true, 4 );
#elif FAMILY == 6
    family<skm_hp, HpHolder<skm_hp_t::c_nHazardPtrCount + 2>, caps_tmap>( "SkipListMap-script" + std::to_string( g_script ), 12 );
    family<skm_rcu, GpbHolder, caps_tmap_rcu>( "SkipListMap-script" + std::to_string( g_script ), 16 );
    family<elm_hp, HpHolder<elm_hp_t::c_nHazardPtrCount + 2>, caps_tmap>( "EllenBinTreeMap", 48, 2, 3, true, 6 );
#elif FAMILY == 5
    family<br_spin, GpbHolder, caps_bronson>( "BronsonAVLTreeMap-injecting-spin", 24, 2, 3, true, 4 );
    family<br_pool, GpbHolder, caps_bronson>( "BronsonAVLTreeMap-pool-monitor", 48, 2, 3, true, 8 );
    family<br_mutex, GpbHolder, caps_bronson>( "BronsonAVLTreeMap-injecting-mutex", 96, 2, 3, false, 16 );
#endif

    Options o; o.property = vh::property().c_str();
    o.default_bound_quick = 2; o.default_bound_thorough = 3;
    return main_run( argc, argv, g_scen, o );
}
