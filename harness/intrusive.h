// Intrusive containers behind the uniform set API of sets.h: the harness owns the items, the container links them and calls the
// disposer. Adds what only the intrusive API has: unlink(item), and the disposer contract (DESIGN.md 7.5):
//   - an item whose insertion was reported is disposed exactly once by the time the container and its reclamation scheme are gone,
//   - an item whose insertion was refused is never disposed,
//   - after the disposer ran for an item the library never touches the item's hook again (engine: region_freed).
#ifndef VERIF_HARNESS_INTRUSIVE_H
#define VERIF_HARNESS_INTRUSIVE_H

#include "sets.h"
#include <map>

namespace vh {

struct no_hook {};

struct INodeInfo {
    int disposed = 0;
    int linked = -1;        // -1: outcome of the insertion not known yet, 0: refused, 1: linked
    int id = 0;
};

template <class Hook>
struct INode: public Hook, public Item, public INodeInfo {
    explicit INode( Item const& i ): Item( i ) {}
};

// all items of one execution; they stay allocated until the next execution starts
struct NodeArena {
    struct Entry { void* p; INodeInfo* info; Item* item; void (*del)( void* ); };
    std::vector<Entry> all;
    std::string err_sig, err;
    static NodeArena& get() { static NodeArena a; return a; }
    void reset() { cds_verif::regions_reset(); for ( auto& e : all ) e.del( e.p ); all.clear(); err_sig.clear(); err.clear(); }
    template <class N> N* make( Item const& i )
    {
        N* n = new N( i ); n->id = int( all.size());
        all.push_back( Entry{ n, n, n, []( void* p ) { delete static_cast<N*>( p ); } } );
        return n;
    }
    void fail( std::string const& sig, std::string const& m )
    {
        if ( cds_verif::active()) vh::fail_mid( sig, m );
        if ( err_sig.empty()) { err_sig = sig; err = m; }
    }
    std::string final_check( const char* prop )
    {
        if ( !err.empty()) return err;
        for ( auto const& e : all ) {
            std::string who = "item #" + std::to_string( e.info->id ) + " (key " + std::to_string( e.item->key ) + ", value " + std::to_string( e.item->val ) + ")";
            if ( e.info->linked == 1 && e.info->disposed == 0 ) return who + " was inserted but the disposer was never called for it, although the container and the reclamation scheme are destroyed";
            if ( e.info->linked == 0 && e.info->disposed != 0 ) return who + " was disposed although its insertion was refused";
            if ( e.info->disposed > 1 ) return who + " was disposed " + std::to_string( e.info->disposed ) + " times";
        }
        (void) prop;
        return std::string();
    }
};

template <const char* Prop( void )>
struct node_disposer {
    template <class N> void operator()( N* p ) const
    {
        if ( ++p->disposed > 1 )
            NodeArena::get().fail( std::string( Prop()) + ":disposed-twice", "the disposer is called a second time for item #" + std::to_string( p->id ) + " (key " + std::to_string( p->key ) + ")" );
        // from now on the library must not touch the item (its hook holds the instrumented link words)
        cds_verif::region_freed( static_cast<void*>( p ), sizeof( N ), "item handed to the disposer" );
    }
};

template <class T, class = void> struct rcu_lock_of { struct type {}; };
template <class T> struct rcu_lock_of<T, typename std::enable_if<sizeof( typename T::rcu_lock ) != 0>::type> { typedef typename T::rcu_lock type; };

// container-like API over an intrusive set / list
template <class ISet, bool Replaces = false>
struct IWrap {
    typedef typename ISet::value_type node;
    typedef typename ISet::iterator iterator;
    typedef typename rcu_lock_of<ISet>::type rcu_lock;
    struct arena_reset { arena_reset() { NodeArena::get().reset(); } };
    arena_reset reset_;               // before the container: the items of the previous execution go away
    ISet l;
    std::map<int, node*> orig;       // key -> the item inserted with the identity value key*10 (target of unlink)

    template <class... A> explicit IWrap( A&&... a ): l( std::forward<A>( a )... ) {}
    IWrap(): l() {}

    static node* make( Item const& i ) { return NodeArena::get().make<node>( i ); }
    void remember( node* n ) { if ( n->val == n->key * 10L ) orig[n->key] = n; }     // the latest item inserted with the identity value

    bool insert( Item const& i ) { node* n = make( i ); bool ok = l.insert( *n ); n->linked = ok ? 1 : 0; if ( ok ) remember( n ); return ok; }
    template <class F> bool insert( Item const& i, F f ) { node* n = make( i ); bool ok = l.insert( *n, f ); n->linked = ok ? 1 : 0; if ( ok ) remember( n ); return ok; }
    // Replaces: containers whose update() swaps the new item in - the item is linked whenever the call succeeded
    template <class F> std::pair<bool, bool> update( Item const& i, F f, bool allow )
    { node* n = make( i ); auto r = do_update( l, *n, f, allow, 0 ); n->linked = ( Replaces ? r.first : r.second ) ? 1 : 0; return r; }
    template <class S, class F> static auto do_update( S& s, node& n, F f, bool allow, int ) -> decltype( s.update( n, f, allow )) { return s.update( n, f, allow ); }
    // FeldmanHashSet: update( val, bInsert ) has no functor; the harness's functor is told the outcome so that its accounting stays uniform
    template <class S, class F> static std::pair<bool, bool> do_update( S& s, node& n, F f, bool allow, long )
    { auto r = s.update( n, allow ); if ( r.first ) f( n, r.second ? (node*) nullptr : &n ); return r; }
    bool erase( int k ) { return l.erase( k ); }
    template <class F> bool erase( int k, F f ) { return l.erase( k, f ); }
    bool contains( int k ) { return l.contains( k ); }
    template <class F> bool find( int k, F f ) { return l.find( k, f ); }
    auto extract( int k ) -> decltype( l.extract( k )) { return l.extract( k ); }
    auto get( int k ) -> decltype( l.get( k )) { return l.get( k ); }
    template <class S = ISet> auto extract_min() -> decltype( std::declval<S&>().extract_min()) { return l.extract_min(); }
    template <class S = ISet> auto extract_max() -> decltype( std::declval<S&>().extract_max()) { return l.extract_max(); }
    iterator begin() { return l.begin(); }
    iterator end() { return l.end(); }
    size_t size() const { return l.size(); }
    bool empty() const { return l.empty(); }
    template <class It> bool erase_at( It const& it ) { return l.erase_at( it ); }
    void clear() { l.clear(); }
    template <class S = ISet> auto rbegin() -> decltype( std::declval<S&>().rbegin()) { return l.rbegin(); }
    template <class S = ISet> auto rend() -> decltype( std::declval<S&>().rend()) { return l.rend(); }
    // unlink the item that was inserted with the identity value of the key; false if there is no such item
    bool unlink_orig( int k )
    {
        auto it = orig.find( k );
        if ( it == orig.end()) return false;
        return l.unlink( *it->second );
    }
};

template <class S, bool R> struct final_checker<IWrap<S, R>> { static std::string run( const char* prop ) { return NodeArena::get().final_check( prop ); } };

template <class W> struct is_iwrap: std::false_type {};
template <class S, bool R> struct is_iwrap<IWrap<S, R>>: std::true_type {};

} // namespace vh

#endif
