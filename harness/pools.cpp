// C24: object pools never hand one object to two holders, and deallocated objects become available again (DESIGN.md 9/C24)
#include "common.h"
#include <cds/init.h>
#include <cds/memory/vyukov_queue_pool.h>
#include <cds/memory/pool_allocator.h>
#include <cds/threading/model.h>
#include <sstream>
#include <set>
#include <map>

using namespace cdsmc;
namespace cm = cds::memory;

namespace {

// ---- heap ledger: every allocation the pool makes through its allocator ------------------------------------------------
struct Heap {
    std::map<void*, size_t> live;      // pointer -> element count
    long news = 0, frees = 0;
    std::map<void*, int>* names = nullptr;     // the run's object names; a freed heap object loses its name (its address may be reused)
    std::string err_sig, err;
    void reset() { live.clear(); news = frees = 0; err_sig.clear(); err.clear(); }
    void fail( const char* sig, std::string const& m )
    {
        if ( cds_verif::active()) cds_verif::fail_sig( sig, m.c_str());
        if ( err_sig.empty()) { err_sig = sig; err = m; }
    }
};
Heap g_heap;

template <class T>
struct TrackAlloc {
    typedef T value_type;
    TrackAlloc() noexcept {}
    template <class U> TrackAlloc( TrackAlloc<U> const& ) noexcept {}
    template <class U> struct rebind { typedef TrackAlloc<U> other; };
    T* allocate( size_t n )
    {
        T* p = static_cast<T*>( ::operator new( n * sizeof( T )));
        for ( size_t i = 0; i < n; ++i ) cds_verif::hb_forget( p + i );      // fresh memory: whatever lived at this address before is history
        g_heap.live[p] = n; ++g_heap.news;
        return p;
    }
    void deallocate( T* p, size_t n ) noexcept
    {
        auto it = g_heap.live.find( p );
        if ( it == g_heap.live.end()) { g_heap.fail( "C24:bad-free", "the pool gave its allocator a pointer that is not a live allocation (double free, or an object of the preallocated block)" ); return; }
        if ( it->second != n ) g_heap.fail( "C24:bad-free", "the pool frees an allocation with a different element count" );
        g_heap.live.erase( it ); ++g_heap.frees;
        for ( size_t i = 0; i < n; ++i ) cds_verif::hb_forget( p + i );
        if ( g_heap.names ) g_heap.names->erase( p );
        ::operator delete( p );
    }
    bool operator==( TrackAlloc const& ) const { return true; }
    bool operator!=( TrackAlloc const& ) const { return false; }
};

struct Obj {
    long word;
    Obj(): word( 0 ) {}
};

struct pool_traits: public cm::vyukov_queue_pool_traits {
    typedef TrackAlloc<int> allocator;
};

typedef cm::vyukov_queue_pool<Obj, pool_traits> vq_pool;
typedef cm::lazy_vyukov_queue_pool<Obj, pool_traits> lazy_pool;
typedef cm::bounded_vyukov_queue_pool<Obj, pool_traits> bounded_pool;

enum Flavor { PREALLOC, LAZY, BOUNDED };
template <class P> struct flavor_of;
template <> struct flavor_of<vq_pool> { static constexpr Flavor value = PREALLOC; static const char* name() { return "vyukov_queue_pool"; } };
template <> struct flavor_of<lazy_pool> { static constexpr Flavor value = LAZY; static const char* name() { return "lazy_vyukov_queue_pool"; } };
template <> struct flavor_of<bounded_pool> { static constexpr Flavor value = BOUNDED; static const char* name() { return "bounded_vyukov_queue_pool"; } };

// direct access, or through pool_allocator< Obj, accessor >
template <class P> struct current_pool { static P* ptr; };
template <class P> P* current_pool<P>::ptr = nullptr;
template <class P> struct accessor { typedef typename P::value_type value_type; P& operator()() const { return *current_pool<P>::ptr; } };

template <class P, bool ViaAllocator> struct Access;
template <class P> struct Access<P, false> {
    static Obj* alloc( P& p ) { return p.allocate( 1 ); }
    static void dealloc( P& p, Obj* o ) { p.deallocate( o, 1 ); }
};
template <class P> struct Access<P, true> {
    typedef cm::pool_allocator<Obj, accessor<P>> alloc_type;
    static Obj* alloc( P& ) { return alloc_type().allocate( 1 ); }
    static void dealloc( P&, Obj* o ) { alloc_type().deallocate( o, 1 ); }
};

enum POpc { P_ALLOC, P_FREE_LAST, P_FREE_FIRST };
struct Ins { int op; };
typedef std::vector<Ins> Prog;
constexpr size_t CAP = 2;

template <class P, bool Via>
class PoolRun: public Run
{
    static constexpr Flavor flavor = flavor_of<P>::value;
    std::vector<Prog> progs_; std::vector<int> preheld_;
    std::unique_ptr<P> pool_;
    std::map<Obj*, int> owner_;                  // objects currently allocated -> holder
    std::vector<std::vector<Obj*>> held_;
    std::map<void*, int> names_; int next_name_ = 0;   // stable short names for the log (pointers differ between runs)
    // bad_alloc oracle of the bounded pool: number of objects that are certainly obtainable (not held, not being deallocated, not
    // possibly taken by another allocate() in flight); min_free_[t] is its minimum over t's allocate() call in progress
    int in_dealloc_ = 0, in_alloc_ = 0;
    std::vector<int> min_free_; std::vector<bool> allocating_;
    std::ostringstream log_;
    std::string fail_sig_, fail_msg_;
    long stamp_ = 0;

    void fail( const char* sig, std::string const& m )
    {
        if ( cds_verif::active()) cds_verif::fail_sig( sig, m.c_str());
        if ( fail_sig_.empty()) { fail_sig_ = sig; fail_msg_ = m; }
    }
    int name( Obj* o ) { auto it = names_.find( o ); if ( it != names_.end()) return it->second; int n = next_name_++; names_[o] = n; return n; }
    int certainly_free( int except_alloc_of ) const
    {
        int others = in_alloc_ - ( except_alloc_of >= 0 ? 1 : 0 );
        return int( CAP ) - int( owner_.size()) - in_dealloc_ - others;
    }
    void refresh_min()
    {
        for ( size_t t = 0; t < allocating_.size(); ++t )
            if ( allocating_[t] ) min_free_[t] = std::min( min_free_[t], certainly_free( int( t )));
    }

    Obj* do_alloc( int t, bool quiescent = false )
    {
        size_t slot = t < 0 ? allocating_.size() - 1 : size_t( t );
        allocating_[slot] = true; ++in_alloc_; min_free_[slot] = certainly_free( int( slot )); refresh_min();
        Obj* o = nullptr; bool threw = false;
        try { o = Access<P, Via>::alloc( *pool_ ); }
        catch ( std::bad_alloc& ) { threw = true; }
        allocating_[slot] = false; --in_alloc_;
        if ( threw ) {
            log_ << " t" << t << ":alloc=bad_alloc";
            if ( flavor != BOUNDED ) fail( "C24:bad-alloc", "allocate() threw bad_alloc in a pool that falls back to the heap" );
            else if ( min_free_[slot] > 0 ) {
                std::ostringstream m; m << "allocate() by t" << t << " threw bad_alloc although at every moment of the call at least " << min_free_[slot] << " object(s) of the pool were free (deallocated objects are not available again)";
                fail( "C24:not-available-again", m.str());
            }
            refresh_min();
            return nullptr;
        }
        if ( !o ) { fail( "C24:null", "allocate() returned a null pointer" ); return nullptr; }
        log_ << " t" << t << ":alloc=o" << name( o );
        auto it = owner_.find( o );
        if ( it != owner_.end()) {
            std::ostringstream m; m << "allocate() by t" << t << " returned object o" << name( o ) << " which is allocated to t" << it->second << " and has not been deallocated";
            fail( "C24:two-holders", m.str());
        }
        owner_[o] = t;
        refresh_min();
        // the new holder uses the object: whatever the previous holder wrote must be ordered before (payload pass --hb)
        cds_verif::hb_access( o, false, "read by the new holder" );
        cds_verif::hb_access( o, true, "write by the holder" );
        o->word = ++stamp_;
        (void) quiescent;
        return o;
    }
    void do_dealloc( int t, Obj* o )
    {
        log_ << " t" << t << ":free(o" << name( o ) << ")";
        cds_verif::hb_access( o, true, "last write by the holder" );
        o->word = -1;
        owner_.erase( o ); ++in_dealloc_; refresh_min();
        Access<P, Via>::dealloc( *pool_, o );
        --in_dealloc_;
    }
    template <class Q> static auto in_block_of( Q& q, Obj* o, int ) -> decltype( q.from_pool( o )) { return q.from_pool( o ); }
    template <class Q> static bool in_block_of( Q&, Obj*, long ) { return false; }
    bool in_block( Obj* o ) const { return in_block_of( *pool_, o, 0 ); }

public:
    PoolRun( std::vector<Prog> p, std::vector<int> preheld ): progs_( p ), preheld_( preheld ) {}
    int nthreads() const override { return int( progs_.size()); }
    void setup() override
    {
        cds::threading::Manager::attachThread();
        g_heap.reset(); g_heap.names = &names_;
        pool_.reset( new P( CAP ));
        current_pool<P>::ptr = pool_.get();
        held_.assign( progs_.size(), {} ); min_free_.assign( progs_.size() + 1, 0 ); allocating_.assign( progs_.size() + 1, false );
        for ( size_t t = 0; t < progs_.size(); ++t )
            for ( int i = 0; i < preheld_[t]; ++i ) { Obj* o = do_alloc( int( t )); if ( o ) held_[t].push_back( o ); }
    }
    void prologue( int ) override { cds::threading::Manager::attachThread(); }
    void epilogue( int ) override { cds::threading::Manager::detachThread(); }
    void thread( int t ) override
    {
        auto& h = held_[t];
        for ( auto const& in : progs_[t] ) {
            switch ( in.op ) {
            case P_ALLOC: { Obj* o = do_alloc( t ); if ( o ) h.push_back( o ); break; }
            case P_FREE_LAST: if ( !h.empty()) { Obj* o = h.back(); h.pop_back(); do_dealloc( t, o ); } break;
            case P_FREE_FIRST: if ( !h.empty()) { Obj* o = h.front(); h.erase( h.begin()); do_dealloc( t, o ); } break;
            }
        }
    }
    void teardown() override
    {
        // quiescence: give everything back, then the pool must be able to serve its full capacity again
        // (a pool that has lost an object can make the bounded pool's deallocate() spin for ever: bounded by a step budget)
        cds_verif::set_step_budget( 200000 );
        for ( size_t t = 0; t < held_.size(); ++t ) { for ( Obj* o : held_[t] ) do_dealloc( int( t ), o ); held_[t].clear(); }
        if ( !owner_.empty()) fail( "C24:engine", "owner map not empty at quiescence" );
        long news_before = g_heap.news;
        size_t heap_objects = 0; for ( auto const& kv : g_heap.live ) if ( kv.second == 1 ) ++heap_objects;
        std::vector<Obj*> got;
        for ( size_t i = 0; i < CAP; ++i ) {
            Obj* o = do_alloc( -1, true );
            if ( !o ) break;
            got.push_back( o );
        }
        long fresh = g_heap.news - news_before;
        switch ( flavor ) {
        case PREALLOC:
        case BOUNDED:
            if ( got.size() != CAP ) fail( "C24:not-available-again", "after every object was deallocated the pool cannot serve its capacity" );
            for ( Obj* o : got ) if ( !in_block( o )) {
                fail( "C24:not-available-again", "after every object was deallocated, allocate() does not return an object of the preallocated block: a deallocated object was lost" );
                break;
            }
            if ( fresh != 0 ) fail( "C24:not-available-again", "after every object was deallocated, allocating up to the capacity goes to the heap" );
            if ( heap_objects != 0 ) fail( "C24:leak", "a heap object that was deallocated is still allocated from the pool's allocator" );
            break;
        case LAZY:
            // all live single objects are in the queue now (nothing is held); each must come back before the heap is used
            if ( heap_objects > CAP ) fail( "C24:leak", "more live objects than the queue can hold while nothing is allocated" );
            else if ( fresh != long( CAP - heap_objects )) {
                std::ostringstream m; m << "nothing is allocated and " << heap_objects << " deallocated object(s) are alive, but allocating " << CAP << " objects made " << fresh << " new heap allocation(s): a deallocated object is not available again";
                fail( "C24:not-available-again", m.str());
            }
            break;
        }
        if ( flavor == BOUNDED ) {
            Obj* extra = do_alloc( -1, true );
            if ( extra ) { fail( "C24:two-holders", "the bounded pool served more objects than its capacity" ); got.push_back( extra ); }
        }
        else {
            Obj* extra = do_alloc( -1, true );
            if ( extra ) { if ( in_block( extra )) fail( "C24:two-holders", "an object of the preallocated block was served beyond the capacity" ); got.push_back( extra ); }
        }
        for ( Obj* o : got ) do_dealloc( -1, o );
        cds_verif::set_step_budget( 0 );
        pool_.reset(); current_pool<P>::ptr = nullptr; g_heap.names = nullptr;
        if ( !g_heap.live.empty()) fail( "C24:leak", "the destroyed pool leaves " + std::to_string( g_heap.live.size()) + " allocation(s) behind" );
        if ( !g_heap.err_sig.empty()) fail( g_heap.err_sig.c_str(), g_heap.err );
        cds::threading::Manager::detachThread();
    }
    void check( Result& r ) override
    {
        r.description = log_.str(); r.outcome_hash = hash_str( log_.str()); r.nontrivial = true;
        if ( !fail_sig_.empty()) r.fail( fail_sig_, fail_msg_ );
    }
};

std::vector<Scenario> g_scen;

template <class P, bool Via>
void family( int bq2, int bt2, int bq3, int bt3, bool reduced )
{
    std::string name = std::string( flavor_of<P>::name()) + ( Via ? "+pool_allocator" : "" );
    auto add = [&]( std::string id, std::vector<Prog> p, std::vector<int> pre, int bq, int bt ) {
        Scenario s; s.id = name + "/" + id; s.make = [p, pre]() { return std::unique_ptr<Run>( new PoolRun<P, Via>( p, pre )); };
        s.bound_quick = bq; s.bound_thorough = bt; g_scen.push_back( s );
    };
    Prog a = { { P_ALLOC } }, aa = { { P_ALLOC }, { P_ALLOC } }, ad = { { P_ALLOC }, { P_FREE_LAST } }, ada = { { P_ALLOC }, { P_FREE_LAST }, { P_ALLOC } };
    Prog d = { { P_FREE_LAST } }, da = { { P_FREE_LAST }, { P_ALLOC } }, dad = { { P_FREE_LAST }, { P_ALLOC }, { P_FREE_LAST } }, aad = { { P_ALLOC }, { P_ALLOC }, { P_FREE_FIRST } };
    Prog aaa = { { P_ALLOC }, { P_ALLOC }, { P_ALLOC } }, dd = { { P_FREE_FIRST }, { P_FREE_FIRST } };
    std::vector<std::pair<std::string, Prog>> ps = { { "a", a }, { "aa", aa }, { "ad", ad }, { "ada", ada }, { "d", d }, { "da", da }, { "dad", dad }, { "aad", aad }, { "aaa", aaa }, { "dd", dd } };
    if ( reduced ) ps = { { "a", a }, { "ad", ad }, { "da", da }, { "aad", aad }, { "dd", dd } };
    // objects held at the start (thread 0, thread 1): from an untouched pool to one that is already past its capacity
    std::vector<std::vector<int>> pres = { { 0, 0 }, { 1, 0 }, { 1, 1 }, { 2, 0 }, { 2, 1 } };
    for ( auto const& pre : pres ) {
        if ( flavor_of<P>::value == BOUNDED && pre[0] + pre[1] > int( CAP )) continue;
        for ( size_t i = 0; i < ps.size(); ++i ) for ( size_t j = i; j < ps.size(); ++j )
            add( "pre" + std::to_string( pre[0] ) + std::to_string( pre[1] ) + "-" + ps[i].first + "|" + ps[j].first, { ps[i].second, ps[j].second }, pre, bq2, bt2 );
    }
    add( "3t-pre100-ad|ad|a", { ad, ad, a }, { 1, 0, 0 }, bq3, bt3 );
    add( "3t-pre110-da|da|aa", { da, da, aa }, { 1, 1, 0 }, bq3, bt3 );
    add( "3t-pre200-dd|a|a", { dd, a, a }, { 2, 0, 0 }, bq3, bt3 );
    add( "3t-pre111-d|ad|a", { d, ad, a }, { 1, 1, flavor_of<P>::value == BOUNDED ? 0 : 1 }, bq3, bt3 );
}

} // namespace

int main( int argc, char** argv )
{
    vh::take_property( argc, argv, "C24" );
    cds::Initialize();
    family<vq_pool, false>( 3, 5, 2, 3, false );
    family<lazy_pool, false>( 3, 5, 2, 3, false );
    family<bounded_pool, false>( 3, 5, 2, 3, false );
    family<vq_pool, true>( 3, 4, 2, 3, true );
    family<lazy_pool, true>( 3, 4, 2, 3, true );
    family<bounded_pool, true>( 3, 4, 2, 3, true );
    Options o; o.property = vh::property().c_str();
    o.default_bound_quick = 3; o.default_bound_thorough = 5;
    return main_run( argc, argv, g_scen, o );
}
