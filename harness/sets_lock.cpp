// C16: lock-based hash containers (CuckooSet, StripedSet) are linearizable across concurrent resizes (DESIGN.md 9/C16)
#include "sets.h"
#include "seq.h"

#ifndef FAMILY
#   define FAMILY 1
#endif

#if FAMILY == 1 || FAMILY == 2
#   include <cds/container/cuckoo_set.h>
#elif FAMILY == 4
#   include "maps.h"
#   include <cds/container/cuckoo_map.h>
#   include <cds/container/striped_map/std_list.h>
#   include <cds/container/striped_map/std_map.h>
#   include <cds/container/striped_map.h>
#elif FAMILY == 3
#   include <cds/container/striped_set/std_list.h>
#   include <cds/container/striped_set/std_set.h>
#   include <cds/container/striped_set.h>
#endif

using namespace vh;
using namespace cdsmc;
namespace cc = cds::container;

namespace {

const char* prop() { return vh::property() == "C20" ? "C20" : "C16"; }
std::vector<Scenario> g_scen;

// keys k[0..5] all collide (same cells / same bucket); the table grows while they are in flight
template <class Set, class Caps>
void family( std::string const& tname, std::vector<int> k, int step, int bq, int bt, int resize_prefix )
{
    typedef SetAdapter<Set, NoSmr, Caps, prop> A;
    std::string base = tname;
    std::vector<int> universe = k; universe.push_back( 0 );
    if ( vh::property() == "C20" ) {
        // three colliding keys; second start state: enough colliding keys present that the next insert relocates / resizes
        TProg full; for ( int i = 0; i < resize_prefix; ++i ) full.push_back( POp{ INS, k[i], 0 } );
        add_seq_scenarios<A, Caps>( g_scen, base, { k[0], k[1], k[resize_prefix] }, universe, { TProg(), full }, 3, 4 );
        return;
    }
    add_set_programs<A>( g_scen, base, set_grammar( { INS, DEL, HAS }, { k[0], k[1] }, 2, "g" ), 2, 0, step, bq, bt, universe );
    std::vector<Program> cur = set_curated( true, false, { 0, k[0], k[1], k[2] } );
    for ( auto const& p : cur ) {
        bool supported = true;
        for ( auto const& t : p.threads ) for ( auto const& o : t ) if ( o.op == GET || o.op == EXTRACT ) supported = false;
        if ( !supported ) continue;
        g_scen.push_back( make_scenario<A>( base, p, SetCfg( int( p.threads.size()), universe ), 0, p.threads.size() > 2 ? 1 : bq, p.threads.size() > 2 ? 2 : bt ));
    }
    // resize programs: 'resize_prefix' colliding keys are present; the next insert relocates / resizes
    auto P = [&]( std::string name, std::vector<TProg> th, int q, int t ) {
        Program p; p.name = name; for ( int i = 0; i < resize_prefix; ++i ) p.prefix.push_back( POp{ INS, k[i], 0 } ); p.threads = th;
        g_scen.push_back( make_scenario<A>( base, p, SetCfg( int( th.size()), universe ), 0, q, t ));
    };
    int a = k[resize_prefix], b = k[resize_prefix + 1];
    P( "resize-vs-has", { { { INS, a, 0 }, { HAS, k[0], 0 } }, { { HAS, k[0], 0 }, { HAS, k[1], 0 } } }, bq, bt );
    P( "resize-vs-del", { { { INS, a, 0 }, { HAS, k[1], 0 } }, { { DEL, k[0], 0 }, { HAS, a, 0 } } }, bq, bt );
    P( "resize-vs-ins", { { { INS, a, 0 } }, { { INS, b, 0 }, { HAS, a, 0 } } }, bq, bt );
    P( "resize-vs-resize", { { { INS, a, 0 }, { DEL, k[0], 0 } }, { { INS, b, 0 }, { DEL, k[1], 0 } } }, bq, bt );
    P( "3t-resize", { { { INS, a, 0 } }, { { INS, b, 0 } }, { { DEL, k[0], 0 }, { HAS, k[1], 0 } } }, 1, 2 );
    // a thread that picked its lock before a complete resize must not work on the bucket under the retired lock
    P( "resize-vs-ins-same", { { { INS, a, 0 }, { HAS, a, 0 } }, { { INS, b, 0 }, { INS, a, 0 } } }, bq, bt );
    P( "resize-vs-del-same", { { { DEL, k[0], 0 }, { HAS, k[0], 0 } }, { { INS, a, 0 }, { DEL, k[0], 0 } } }, bq, bt );
    // (two preemptions for the striped sets, whose operations are short; the cuckoo relocations make that bound too expensive for the quick tier)
    P( "3t-resize-ins-ins-same", { { { INS, a, 0 } }, { { INS, b, 0 } }, { { INS, a, 0 } } }, resize_prefix == 1 ? 2 : 1, 2 );
    P( "resize-vs-upsert", { { { INS, a, 0 } }, { { UPD_INS, k[0], 77 }, { FIND_F, k[0], 0 } } }, bq, bt );
}

} // namespace

#if FAMILY == 1 || FAMILY == 2
namespace {
// table of 4 cells per hash function: keys 1, 5, 9, 13, 17, 21 collide under both hash functions
struct h1 { size_t operator()( Item const& i ) const { return size_t( i.key ); } size_t operator()( int k ) const { return size_t( k ); } };
struct h2 { size_t operator()( Item const& i ) const { return ~size_t( i.key ); } size_t operator()( int k ) const { return ~size_t( k ); } };
template <class Policy, class Probe, bool Store>
struct ck_traits: public cc::cuckoo::traits {
    typedef cds::opt::hash_tuple< h1, h2 > hash;
    typedef item_equal equal_to; typedef item_less less;
    typedef Policy mutex_policy; typedef Probe probeset_type;
    static bool const store_hash = Store;
};
typedef cds::intrusive::cuckoo::striping< cds_verif::recursive_mutex, 2 > pol_striping;
typedef cds::intrusive::cuckoo::refinable< cds_verif::recursive_mutex, 2 > pol_refinable;
#if FAMILY == 1
typedef cc::CuckooSet< Item, ck_traits<pol_striping, cc::cuckoo::list, false> > ck_str_list;
typedef cc::CuckooSet< Item, ck_traits<pol_striping, cc::cuckoo::vector<2>, true> > ck_str_vec;
#else
typedef cc::CuckooSet< Item, ck_traits<pol_refinable, cc::cuckoo::list, true> > ck_ref_list;
typedef cc::CuckooSet< Item, ck_traits<pol_refinable, cc::cuckoo::vector<2>, false> > ck_ref_vec;
#endif
}
namespace vh {
// initial size 4, probe set size 2, threshold 1: the third colliding insert relocates, the fifth resizes
#if FAMILY == 1
template <> inline ck_str_list* make_set<ck_str_list>( SetCfg const& ) { return new ck_str_list( 4, 2, 1 ); }
template <> inline ck_str_vec* make_set<ck_str_vec>( SetCfg const& ) { return new ck_str_vec( 4, 2, 1 ); }
#else
template <> inline ck_ref_list* make_set<ck_ref_list>( SetCfg const& ) { return new ck_ref_list( 4, 2, 1 ); }
template <> inline ck_ref_vec* make_set<ck_ref_vec>( SetCfg const& ) { return new ck_ref_vec( 4, 2, 1 ); }
#endif
}
#elif FAMILY == 3
namespace {
typedef cc::striped_set::single_bucket_size_threshold<1> resize_at_2;
typedef cc::StripedSet< std::list<Item>, cds::opt::hash<item_hash_id>, cds::opt::less<item_less>,
    cds::opt::mutex_policy< cc::striped_set::striping< cds_verif::mutex > >, cds::opt::resizing_policy< resize_at_2 > > st_list_striping;
typedef cc::StripedSet< std::set<Item, item_less>, cds::opt::hash<item_hash_id>, cds::opt::less<item_less>,
    cds::opt::mutex_policy< cc::striped_set::refinable< cds_verif::recursive_mutex > >, cds::opt::resizing_policy< resize_at_2 > > st_set_refinable;
typedef cc::StripedSet< std::list<Item>, cds::opt::hash<item_hash_id>, cds::opt::compare<item_cmp>,
    cds::opt::mutex_policy< cc::striped_set::refinable< cds_verif::recursive_mutex > >, cds::opt::resizing_policy< resize_at_2 > > st_list_refinable;
}
#endif

#if FAMILY == 4
namespace {
struct caps_lmap: caps_map_hp {
    static constexpr PtrKind kind = PK_NONE;
    typedef std::false_type has_extract; typedef std::false_type has_get;
};
struct ih1 { size_t operator()( int k ) const { return size_t( k ); } };
struct ih2 { size_t operator()( int k ) const { return ~size_t( k ); } };
struct int_less { bool operator()( int a, int b ) const { return a < b; } };
template <class Policy, class Probe, bool Store>
struct ckm_traits: public cc::cuckoo::traits {
    typedef cds::opt::hash_tuple< ih1, ih2 > hash;
    typedef std::equal_to<int> equal_to; typedef int_less less;
    typedef Policy mutex_policy; typedef Probe probeset_type;
    static bool const store_hash = Store;
};
typedef cds::intrusive::cuckoo::striping< cds_verif::recursive_mutex, 2 > pol_striping;
typedef cds::intrusive::cuckoo::refinable< cds_verif::recursive_mutex, 2 > pol_refinable;
typedef MapWrap< cc::CuckooMap< int, long, ckm_traits<pol_striping, cc::cuckoo::list, true> > > ckm_str;
typedef MapWrap< cc::CuckooMap< int, long, ckm_traits<pol_refinable, cc::cuckoo::vector<2>, false> > > ckm_ref;
typedef cc::striped_set::single_bucket_size_threshold<1> resize_at_2;
typedef MapWrap< cc::StripedMap< std::list< std::pair<int const, long> >, cds::opt::hash<ih1>, cds::opt::less<int_less>,
    cds::opt::mutex_policy< cc::striped_set::striping< cds_verif::mutex > >, cds::opt::resizing_policy< resize_at_2 > > > stm_list;
typedef MapWrap< cc::StripedMap< std::map<int, long, int_less>, cds::opt::hash<ih1>, cds::opt::less<int_less>,
    cds::opt::mutex_policy< cc::striped_set::refinable< cds_verif::recursive_mutex > >, cds::opt::resizing_policy< resize_at_2 > > > stm_map;
}
namespace vh {
template <> inline ckm_str* make_set<ckm_str>( SetCfg const& ) { return new ckm_str( 4, 2, 1 ); }
template <> inline ckm_ref* make_set<ckm_ref>( SetCfg const& ) { return new ckm_ref( 4, 2, 1 ); }
}
#endif

int main( int argc, char** argv )
{
    vh::take_property( argc, argv, "C16" );
    cds::Initialize();

#if FAMILY == 1
    family<ck_str_list, caps_lock>( "CuckooSet-striping-list", { 1, 5, 9, 13, 17, 21 }, 8, 3, 4, 4 );
    family<ck_str_vec, caps_lock>( "CuckooSet-striping-vector2-storehash", { 1, 5, 9, 13, 17, 21 }, 24, 3, 4, 4 );
#elif FAMILY == 2
    family<ck_ref_list, caps_lock>( "CuckooSet-refinable-list-storehash", { 1, 5, 9, 13, 17, 21 }, 8, 2, 3, 4 );
    family<ck_ref_vec, caps_lock>( "CuckooSet-refinable-vector2", { 1, 5, 9, 13, 17, 21 }, 24, 2, 3, 4 );
#elif FAMILY == 4
    family<ckm_str, caps_lmap>( "CuckooMap-striping-list-storehash", { 1, 5, 9, 13, 17, 21 }, 12, 2, 3, 4 );
    family<ckm_ref, caps_lmap>( "CuckooMap-refinable-vector2", { 1, 5, 9, 13, 17, 21 }, 24, 2, 3, 4 );
    family<stm_list, caps_lmap>( "StripedMap-stdlist-striping", { 1, 17, 33, 49, 65, 81 }, 12, 2, 3, 1 );
    family<stm_map, caps_lmap>( "StripedMap-stdmap-refinable", { 1, 17, 33, 49, 65, 81 }, 24, 2, 3, 1 );
#elif FAMILY == 3
    // 16 buckets at least: keys 1, 17, 33, 49, 65, 81 share bucket 1; a bucket of more than one item triggers a resize
    family<st_list_striping, caps_lock>( "StripedSet-stdlist-striping", { 1, 17, 33, 49, 65, 81 }, 8, 2, 3, 1 );
    family<st_set_refinable, caps_lock>( "StripedSet-stdset-refinable", { 1, 17, 33, 49, 65, 81 }, 16, 2, 3, 1 );
    family<st_list_refinable, caps_lock>( "StripedSet-stdlist-refinable-cmp", { 1, 17, 33, 49, 65, 81 }, 32, 2, 3, 1 );
#endif

    Options o; o.property = vh::property().c_str();
    o.default_bound_quick = 2; o.default_bound_thorough = 3;
    return main_run( argc, argv, g_scen, o );
}
