// Generic harness for set / map containers (C13-C16, C18, C19): adapter over the uniform libcds set API,
// program grammars, quiescent post-conditions.
#ifndef VERIF_HARNESS_SETS_H
#define VERIF_HARNESS_SETS_H

#include "cont.h"
#include "smr_holders.h"
#include <type_traits>

namespace vh {

// The item reports its construction and the reads of its value to the happens-before tracker (a no-op unless the run uses --hb):
// a reader that got the item through the container must be ordered after the thread that built it.
struct Item {
    int key; long val;
    Item(): key( 0 ), val( 0 ) { cds_verif::hb_access( this, true, "item construction" ); }
    Item( int k ): key( k ), val( k * 10L ) { cds_verif::hb_access( this, true, "item construction" ); }
    Item( int k, long v ): key( k ), val( v ) { cds_verif::hb_access( this, true, "item construction" ); }
    Item( Item const& o ): key( o.key ), val( o.val ) { cds_verif::hb_access( this, true, "item copy-construction" ); }
    Item& operator=( Item const& o ) { key = o.key; val = o.val; cds_verif::hb_access( this, true, "item assignment" ); return *this; }
    ~Item() { val = -777; key = -777; cds_verif::hb_forget( this ); }     // poison: a read through a pointer to a disposed item shows a wrong value
    long read_val() const { cds_verif::hb_access( this, false, "read of the item's value" ); return val; }
};

struct item_less {
    bool operator()( Item const& a, Item const& b ) const { return a.key < b.key; }
    bool operator()( Item const& a, int b ) const { return a.key < b; }
    bool operator()( int a, Item const& b ) const { return a < b.key; }
    bool operator()( int a, int b ) const { return a < b; }
};
struct item_cmp {
    static int c( int a, int b ) { return a < b ? -1 : a > b ? 1 : 0; }
    int operator()( Item const& a, Item const& b ) const { return c( a.key, b.key ); }
    int operator()( Item const& a, int b ) const { return c( a.key, b ); }
    int operator()( int a, Item const& b ) const { return c( a, b.key ); }
    int operator()( int a, int b ) const { return c( a, b ); }
};
struct item_equal {
    bool operator()( Item const& a, Item const& b ) const { return a.key == b.key; }
    bool operator()( Item const& a, int b ) const { return a.key == b; }
    bool operator()( int a, Item const& b ) const { return a == b.key; }
    bool operator()( int a, int b ) const { return a == b; }
};
// M buckets worth of entropy: keys collide modulo M
template <int M> struct item_hash {
    size_t operator()( Item const& i ) const { return size_t( i.key % M ); }
    size_t operator()( int k ) const { return size_t( k % M ); }
};
struct item_hash_id {
    size_t operator()( Item const& i ) const { return size_t( i.key ); }
    size_t operator()( int k ) const { return size_t( k ); }
};

// functors that fit every functor signature the set containers use
// The library calls insert/update functors after the item is linked and leaves the synchronisation of the changes they make to the user,
// so the functors here only observe: values are fixed at construction (before the item becomes reachable).
struct InsF { long v; int* calls; template <class I> void operator()( I& ) const { if ( calls ) ++*calls; } };
struct UpdF {
    long v; bool* was_new; int* calls;
    template <class I, class Q> void operator()( bool bNew, I&, Q const& ) const { *was_new = bNew; if ( calls ) ++*calls; }     // list/skip/tree style: existing item kept
    template <class I> void operator()( I&, I* old ) const { *was_new = old == nullptr; if ( calls ) ++*calls; }                    // iterable / feldman style: item replaced by the new one
    template <class I> void operator()( I&, std::nullptr_t ) const { *was_new = true; if ( calls ) ++*calls; }
};
struct FindF {
    long* out;
    template <class I, class Q> void operator()( I& item, Q& ) const { *out = item.read_val(); }
    template <class I> void operator()( I& item ) const { *out = item.read_val(); }
};
struct EraseF { long* out; template <class I> void operator()( I const& item ) const { *out = item.read_val(); } };

enum PtrKind { PK_HP, PK_RCU, PK_NONE };

// capability description of a container type (defaults: HP-style full API)
struct caps_hp {
    static constexpr PtrKind kind = PK_HP;
    typedef std::true_type has_extract; typedef std::true_type has_get; typedef std::true_type has_update; typedef std::true_type has_erase;
    typedef std::true_type has_ins_f; typedef std::true_type has_del_f; typedef std::true_type has_find_f; typedef std::true_type has_emplace;
    typedef std::false_type has_minmax; typedef std::true_type has_iter; typedef std::true_type ordered_iter; typedef std::true_type counted;
    typedef std::false_type update_replaces;     // update() of an existing key keeps the old item (true: swaps in the new one)
    typedef std::false_type has_unlink;          // intrusive containers: unlink( item )
    typedef std::false_type upd_default_value;   // maps: an item created by update() carries the default mapped value (0), see maps.h
    // thread-safe iterators (C19): may be used concurrently with updates; erase_at( iterator ); reverse iterators; every element present
    // for the whole iteration is visited exactly once (false: at least once)
    typedef std::false_type safe_iter; typedef std::false_type has_erase_at; typedef std::false_type has_riter; typedef std::true_type iter_exactly_once;
};
struct caps_rcu: caps_hp { static constexpr PtrKind kind = PK_RCU; };
struct caps_nogc: caps_hp {
    static constexpr PtrKind kind = PK_NONE;
    typedef std::false_type has_extract; typedef std::false_type has_get; typedef std::false_type has_erase; typedef std::false_type has_del_f;
};
struct caps_lock: caps_hp {
    static constexpr PtrKind kind = PK_NONE;
    typedef std::false_type has_extract; typedef std::false_type has_get; typedef std::false_type has_iter; typedef std::false_type ordered_iter;
};

struct SetCfg {
    int nthreads; int maxkey; std::vector<int> keys;     // keys: the key universe examined at quiescent points (default 0..maxkey+1)
    SetCfg( int n, int mk ): nthreads( n ), maxkey( mk ) { for ( int k = 0; k <= mk + 1; ++k ) keys.push_back( k ); }
    SetCfg( int n, std::vector<int> ks ): nthreads( n ), maxkey( 0 ), keys( ks ) {}
};

template <class Set> inline void set_thread_exit( Set& ) {}
template <class Set> inline std::string structure_check( Set& ) { return std::string(); }      // overload per family (C18)
template <class Set, class Cfg> inline Set* make_set( Cfg const& ) { return new Set; }            // overload per family
template <class Set> struct final_checker { static std::string run( const char* ) { return std::string(); } };     // after the container and its SMR are gone (intrusive.h)

// RCU read-side lock helper
template <class Set, PtrKind K> struct rcu_guard { rcu_guard() {} };
template <class Set> struct rcu_guard<Set, PK_RCU> { typename Set::rcu_lock l; };

template <class Set, class Smr, class Caps, const char* Prop( void )>
struct SetAdapter
{
    SetCfg cfg; std::unique_ptr<Smr> smr; std::unique_ptr<Set> s;
    typedef std::true_type drain_observes;      // drain() only looks (find on every key): seqmc calls it after every operation
    bool seq_mode = false;      // single-threaded conformance run (C20): stricter functor accounting, exact extract_min/max
    explicit SetAdapter( SetCfg c ): cfg( c ) {}
    static const char* property() { return Prop(); }

    void setup() { smr.reset( new Smr( cfg.nthreads + 1 )); attach(); s.reset( make_set<Set>( cfg )); }
    void teardown() { s.reset(); detach(); smr.reset(); }
    void thread_begin( int ) { attach(); }
    void thread_end( int ) { set_thread_exit( *s ); detach(); }

    template <class P> static void rel_raw( P& p ) { p.release(); }
    template <class T> static void rel_raw( T*& ) {}     // some RCU containers hand out a plain pointer that is only valid inside the lock

    // ---- operations, dispatched on capabilities ----
    template <class S> long do_extract( S& st, int k, bool& ok, std::true_type, std::integral_constant<PtrKind, PK_HP> )
    { auto gp = st.extract( k ); ok = bool( gp ); return ok ? gp->val : 0; }
    template <class S> long do_extract( S& st, int k, bool& ok, std::true_type, std::integral_constant<PtrKind, PK_RCU> )
    { auto ep = st.extract( k ); ok = bool( ep ); long v = ok ? ep->val : 0; ep.release(); return v; }
    template <class S, class A, class B> long do_extract( S&, int, bool& ok, A, B ) { ok = false; return 0; }

    template <class S> long do_get( S& st, int k, bool& ok, std::true_type, std::integral_constant<PtrKind, PK_HP> )
    { auto gp = st.get( k ); ok = bool( gp ); return ok ? gp->val : 0; }
    template <class S> long do_get( S& st, int k, bool& ok, std::true_type, std::integral_constant<PtrKind, PK_RCU> )
    {
        decltype( st.get( k )) rp = decltype( st.get( k ))(); long v = 0;
        { typename S::rcu_lock l; rp = st.get( k ); ok = bool( rp ); if ( ok ) v = rp->val; }
        rel_raw( rp );
        return v;
    }
    template <class S, class A, class B> long do_get( S&, int, bool& ok, A, B ) { ok = false; return 0; }

    template <class S> bool do_update( S& st, int k, long v, bool allow, bool& inserted, std::true_type )
    {
        bool was_new = false; int calls = 0;
        auto r = st.update( Item( k, v ), UpdF{ v, &was_new, &calls }, allow ); inserted = r.second;
        // sequential mode (C20): the functor runs exactly once when the call succeeds, with the new-item flag equal to the returned pair
        if ( seq_mode ) {
            if ( calls != ( r.first ? 1 : 0 )) q_err = "update functor called " + std::to_string( calls ) + " times for an update that returned first=" + ( r.first ? "true" : "false" );
            else if ( r.first && was_new != r.second ) q_err = "update functor got the new-item flag " + std::to_string( was_new ) + " but update() returned second=" + std::to_string( r.second );
            if ( !r.first && r.second ) q_err = "update() returned (false,true)";
        }
        return r.first;
    }
    template <class S> bool do_update( S&, int, long, bool, bool& inserted, std::false_type ) { inserted = false; return false; }

    template <class S> bool do_ins_f( S& st, int k, long v, std::true_type ) { int calls = 0; bool ok = st.insert( Item( k, v ), InsF{ v, &calls } ); if ( calls != ( ok ? 1 : 0 )) q_err = "insert functor called " + std::to_string( calls ) + " times for an insert that returned " + ( ok ? "true" : "false" ); return ok; }
    template <class S> bool do_ins_f( S& st, int k, long v, std::false_type ) { return st.insert( Item( k, v )); }
    template <class S> bool do_emplace( S& st, int k, long v, std::true_type ) { return st.emplace( k, v ); }
    template <class S> bool do_emplace( S& st, int k, long v, std::false_type ) { return st.insert( Item( k, v )); }
    template <class S> static auto do_clear( S& st, int ) -> decltype( st.clear(), void()) { st.clear(); }
    template <class S> static void do_clear( S&, long ) {}
    template <class S> static auto has_clear( S& st, int ) -> decltype( st.clear(), true ) { return true; }
    template <class S> static bool has_clear( S&, long ) { return false; }
    template <class S> bool do_unlink( S& st, int k, std::true_type ) { return st.unlink_orig( k ); }
    template <class S> bool do_unlink( S&, int, std::false_type ) { return false; }
    template <class S> bool do_erase( S& st, int k, std::true_type ) { return st.erase( k ); }
    template <class S> bool do_erase( S&, int, std::false_type ) { return false; }
    template <class S> bool do_del_f( S& st, int k, long& v, std::true_type ) { return st.erase( k, EraseF{ &v } ); }
    template <class S> bool do_del_f( S& st, int k, long&, std::false_type ) { return do_erase( st, k, typename Caps::has_erase()); }
    template <class S> bool do_find_f( S& st, int k, long& v, std::true_type ) { return st.find( k, FindF{ &v } ); }
    template <class S> bool do_find_f( S& st, int k, long&, std::false_type ) { return st.contains( k ); }

    template <class S> bool do_min( S& st, bool mx, long& key, std::true_type, std::integral_constant<PtrKind, PK_HP> )
    { auto gp = mx ? st.extract_max() : st.extract_min(); if ( gp ) { key = gp->key; return true; } return false; }
    template <class S> bool do_min( S& st, bool mx, long& key, std::true_type, std::integral_constant<PtrKind, PK_RCU> )
    { auto ep = mx ? st.extract_max() : st.extract_min(); bool ok = bool( ep ); if ( ok ) key = ep->key; ep.release(); return ok; }
    template <class S, class A, class B> bool do_min( S&, bool, long&, A, B ) { return false; }

    // ---- iteration with thread-safe iterators (C19) ----
    struct IterRec { int thread; bool reverse; uint64_t inv = 0, ret = 0; std::vector<std::pair<int, long>> seen; };
    std::vector<IterRec> iters;
    std::string it_err;
    template <class N> static auto disposed_of( N const& n, int ) -> decltype( n.disposed != 0 ) { return n.disposed != 0; }
    template <class N> static bool disposed_of( N const& n, long ) { return n.key == -777 || n.val == -777; }
    template <class S, class It> bool call_erase_at( S& st, It& it, std::true_type ) { return st.erase_at( it ); }
    template <class S, class It> bool call_erase_at( S&, It&, std::false_type ) { return false; }
    template <class S, class It>
    void walk( S& st, It it, It end, size_t rec, int erase_key, int t, cdsmc::History& h )
    {
        for ( ; it != end; ++it ) {
            int k = it->key; long v = it->val;
            if ( disposed_of( *it, 0 ) && it_err.empty())
                it_err = "the iterator of t" + std::to_string( t ) + " is positioned on an element (key " + std::to_string( k ) + ") that has already been disposed";
            iters[rec].seen.push_back( std::make_pair( k, v ));
            if ( erase_key && k == erase_key && Caps::has_erase_at::value ) {
                int i = h.call( t, UNLINK, k, v ); bool ok = call_erase_at( st, it, typename Caps::has_erase_at()); h.ret( i, ok );
                erase_key = 0;
            }
        }
    }
    // the iteration is part of the recorded history (result: number of elements, and the visited keys packed base 1000) so that it
    // shows in outcomes and replays; the sequential specification ignores it
    void finish_iter( cdsmc::History& h, int hi, size_t rec )
    {
        long packed = 0; for ( auto const& kv : iters[rec].seen ) packed = packed * 1000 + ( kv.first % 1000 );
        h.ret( hi, long( iters[rec].seen.size()), packed );
        iters[rec].inv = h.ops[size_t( hi )].inv; iters[rec].ret = h.ops[size_t( hi )].ret;
    }
    template <class S> void do_iter( S& st, int t, bool, int erase_key, cdsmc::History& h, std::true_type, std::false_type )
    {
        iters.emplace_back(); size_t rec = iters.size() - 1; iters[rec].thread = t; iters[rec].reverse = false;
        int hi = h.call( t, ITER, erase_key );
        { rcu_guard<S, Caps::kind> g; (void) g; walk( st, st.begin(), st.end(), rec, erase_key, t, h ); }
        finish_iter( h, hi, rec );
    }
    template <class S> void do_iter( S& st, int t, bool reverse, int erase_key, cdsmc::History& h, std::true_type, std::true_type )
    {
        if ( !reverse ) { do_iter( st, t, false, erase_key, h, std::true_type(), std::false_type()); return; }
        iters.emplace_back(); size_t rec = iters.size() - 1; iters[rec].thread = t; iters[rec].reverse = true;
        int hi = h.call( t, RITER, erase_key );
        { rcu_guard<S, Caps::kind> g; (void) g; walk( st, st.rbegin(), st.rend(), rec, erase_key, t, h ); }
        finish_iter( h, hi, rec );
    }
    template <class S, class B> void do_iter( S&, int, bool, int, cdsmc::History&, std::false_type, B ) {}

    static bool is_insert( cdsmc::Op const& o ) { return (( o.op == INS || o.op == INS_F || o.op == EMPLACE ) && o.res ) || ( o.op == UPD_INS && o.res && o.res2 ); }
    static bool is_replace( cdsmc::Op const& o ) { return Caps::update_replaces::value && ( o.op == UPD_INS || o.op == UPD_NOINS ) && o.res && !( o.op == UPD_INS && o.res2 ); }
    static bool is_removal( cdsmc::Op const& o ) { return ( o.op == DEL || o.op == DEL_F || o.op == EXTRACT || o.op == UNLINK ) && o.res; }
    // interval rules (DESIGN 9/C19), all conservative: an element counts as "present for the whole iteration" only if its insertion
    // returned before the iteration was invoked and no removal or replacement of its key was invoked before the iteration returned
    // (other than ones that returned before that insertion was invoked)
    std::string check_iterations( cdsmc::History const& h )
    {
        if ( !it_err.empty()) return it_err;
        for ( IterRec const& R : iters ) {
            std::string who = std::string( R.reverse ? "reverse " : "" ) + "iteration by t" + std::to_string( R.thread );
            if ( Caps::ordered_iter::value )
                for ( size_t i = 1; i < R.seen.size(); ++i )
                    if ( R.reverse ? !( R.seen[i - 1].first > R.seen[i].first ) : !( R.seen[i - 1].first < R.seen[i].first ))
                        return who + " visits key " + std::to_string( R.seen[i].first ) + " after key " + std::to_string( R.seen[i - 1].first ) + ": not in key order";
            for ( int k : cfg.keys ) {
                bool throughout = false;
                for ( cdsmc::Op const& I : h.ops ) {
                    if ( I.arg != k || !( is_insert( I ) || is_replace( I )) || !( I.ret < R.inv )) continue;
                    bool disturbed = false;
                    for ( cdsmc::Op const& X : h.ops )
                        if ( X.arg == k && &X != &I && ( is_removal( X ) || is_replace( X )) && X.inv < R.ret && X.ret > I.inv ) disturbed = true;
                    if ( !disturbed ) throughout = true;
                }
                size_t n = 0; for ( auto const& kv : R.seen ) if ( kv.first == k ) ++n;
                if ( throughout && n == 0 ) return who + " does not visit key " + std::to_string( k ) + " although it was present during the whole iteration";
                if ( throughout && n > 1 && Caps::iter_exactly_once::value ) return who + " visits key " + std::to_string( k ) + " " + std::to_string( n ) + " times although it was present, unchanged, during the whole iteration";
            }
            for ( auto const& kv : R.seen ) {
                // the element must have been put in by somebody before the iteration ended ...
                bool exists = false, alive = false;
                for ( cdsmc::Op const& I : h.ops ) {
                    bool puts = I.arg == kv.first && I.arg2 == kv.second && ( is_insert( I ) || is_replace( I ));
                    if ( !puts || !( I.inv < R.ret )) continue;
                    exists = true;
                    // ... and not taken out again completely before the iteration began
                    bool gone = false;
                    for ( cdsmc::Op const& X : h.ops )
                        if ( X.arg == kv.first && &X != &I && ( is_removal( X ) || is_replace( X )) && X.inv > I.ret && X.ret < R.inv ) gone = true;
                    if ( !gone ) alive = true;
                }
                if ( !exists ) return who + " visits an element (key " + std::to_string( kv.first ) + ", value " + std::to_string( kv.second ) + ") that nobody inserted";
                if ( !alive ) return who + " visits the element (key " + std::to_string( kv.first ) + ", value " + std::to_string( kv.second ) + ") that had been removed or replaced before the iteration began";
            }
        }
        return std::string();
    }

    void apply( int t, cdsmc::History& h, POp const& op )
    {
        Set& st = *s;
        int k = int( op.a );
        typedef std::integral_constant<PtrKind, Caps::kind> pk;
        switch ( op.op ) {
        case INS: { int i = h.call( t, INS, k, k * 10L ); bool ok = st.insert( Item( k )); h.ret( i, ok ); break; }
        case INS_F: { long v = op.b ? op.b : k * 10L + 1; int i = h.call( t, INS_F, k, v ); bool ok = do_ins_f( st, k, v, typename Caps::has_ins_f()); h.ret( i, ok ); break; }
        case EMPLACE: { long v = op.b ? op.b : k * 10L + 2; int i = h.call( t, EMPLACE, k, v ); bool ok = do_emplace( st, k, v, typename Caps::has_emplace()); h.ret( i, ok ); break; }
        case DEL: { int i = h.call( t, DEL, k ); bool ok = do_erase( st, k, typename Caps::has_erase()); h.ret( i, ok ); break; }
        case DEL_F: { int i = h.call( t, DEL_F, k ); long v = 0; bool ok = do_del_f( st, k, v, typename Caps::has_del_f()); h.ret( i, ok, Caps::has_del_f::value && ok ? v : 0 ); if ( !Caps::has_del_f::value ) h.ops[size_t( i )].op = DEL; break; }
        case UNLINK: { int i = h.call( t, UNLINK, k, k * 10L ); bool ok = do_unlink( st, k, typename Caps::has_unlink()); h.ret( i, ok ); break; }
        case CLEAR: { int i = h.call( t, CLEAR ); do_clear( st, 0 ); h.ret( i, 1 ); break; }
        case SIZE: { int i = h.call( t, SIZE ); h.ret( i, long( st.size())); break; }
        case EMPTY: { int i = h.call( t, EMPTY ); h.ret( i, st.empty() ? 1 : 0 ); break; }
        case ITER: case RITER: { if ( iters.capacity() < 16 ) iters.reserve( 16 ); do_iter( st, t, op.op == RITER, k, h, typename Caps::safe_iter(), typename Caps::has_riter()); break; }
        case HAS: { int i = h.call( t, HAS, k ); bool ok = st.contains( k ); h.ret( i, ok ); break; }
        case FIND_F: { int i = h.call( t, FIND_F, k ); long v = 0; bool ok = do_find_f( st, k, v, typename Caps::has_find_f()); h.ret( i, ok, ok ? v : 0 ); if ( !Caps::has_find_f::value ) h.ops[size_t( i )].op = HAS; break; }
        case UPD_INS: case UPD_NOINS: {
            long v = Caps::upd_default_value::value ? 0 : ( op.b ? op.b : k * 10L + 5 );
            int i = h.call( t, op.op, k, v ); bool ins = false;
            bool ok = do_update( st, k, v, op.op == UPD_INS, ins, typename Caps::has_update());
            h.ret( i, ok, ins ); break;
        }
        case EXTRACT: { int i = h.call( t, EXTRACT, k ); bool ok = false; long v = do_extract( st, k, ok, typename Caps::has_extract(), pk()); h.ret( i, ok, ok ? v : 0 ); break; }
        case GET: { int i = h.call( t, GET, k ); bool ok = false; long v = do_get( st, k, ok, typename Caps::has_get(), pk()); h.ret( i, ok, ok ? v : 0 ); break; }
        case EXT_MIN: case EXT_MAX: { int i = h.call( t, op.op ); long key = 0; bool ok = do_min( st, op.op == EXT_MAX, key, typename Caps::has_minmax(), pk()); h.ret( i, ok, ok ? key : 0 ); break; }
        default: break;
        }
    }

    // ---- quiescent post-conditions (C18) ----
    std::string q_err;
    template <class S> void traverse( S& st, std::vector<int>& keys, std::true_type )
    {
        rcu_guard<S, Caps::kind> g; (void) g;
        for ( auto it = st.begin(); it != st.end(); ++it ) keys.push_back( it->key );
    }
    template <class S> void traverse( S&, std::vector<int>&, std::false_type ) {}

    void quiescent( cdsmc::Result&, cdsmc::History const& )
    {
        Set& st = *s;
        std::vector<int> present;
        for ( int k : cfg.keys ) if ( st.contains( k )) present.push_back( k );
        std::sort( present.begin(), present.end());
        if ( Caps::has_iter::value ) {
            std::vector<int> keys; traverse( st, keys, typename Caps::has_iter());
            std::vector<int> sorted = keys; std::sort( sorted.begin(), sorted.end());
            if ( Caps::ordered_iter::value ) {
                for ( size_t i = 1; i < keys.size(); ++i )
                    if ( !( keys[i - 1] < keys[i] )) q_err = "traversal is not strictly increasing: key " + std::to_string( keys[i - 1] ) + " is followed by " + std::to_string( keys[i] );
            }
            else for ( size_t i = 1; i < sorted.size(); ++i ) if ( sorted[i - 1] == sorted[i] ) q_err = "traversal visits key " + std::to_string( sorted[i] ) + " twice";
            if ( q_err.empty() && sorted != present ) q_err = "traversal visits " + std::to_string( keys.size()) + " keys but contains() finds " + std::to_string( present.size()) + " keys: the two disagree";
        }
        if ( Caps::counted::value ) {
            if ( st.size() != present.size()) q_err = "size() is " + std::to_string( st.size()) + " but " + std::to_string( present.size()) + " keys are present";
            if ( st.empty() != present.empty()) q_err = "empty() disagrees with the contents";
        }
        if ( q_err.empty()) q_err = structure_check( st );
    }

    void drain( cdsmc::History& h )
    {
        // final contents become part of the history: they must be explained by the linearization
        for ( int k : cfg.keys ) { if ( k <= 0 ) continue; int i = h.call( -1, FIND_F, k ); long v = 0; bool ok = do_find_f( *s, k, v, typename Caps::has_find_f()); h.ret( i, ok, ok ? v : 0 ); if ( !Caps::has_find_f::value ) h.ops[size_t( i )].op = HAS; }
    }
    void post_check( cdsmc::Result& r, cdsmc::History const& h )
    {
        if ( !q_err.empty()) r.fail( "C18:quiescent-structure", q_err );
        if ( !r.failed ) { std::string e = final_checker<Set>::run( Prop()); if ( !e.empty()) r.fail( std::string( Prop()) + ":disposer", e ); }
        if ( !r.failed && !iters.empty()) { std::string e = check_iterations( h ); if ( !e.empty()) r.fail( "C19:iteration", e ); }
    }
    SetSpec spec() const { SetSpec sp; sp.map_values = true; sp.update_replaces = Caps::update_replaces::value; if ( seq_mode ) sp.relaxed_minmax = false; return sp; }
};

// ---- grammars -------------------------------------------------------------------------------------------------------
// base grammar: every 2-thread program with 1..2 operations per thread over {ins, del, has} x keys {1,2} on prefixes {}, {1}, {1,2}
inline std::vector<Program> set_grammar( std::vector<int> const& ops, std::vector<int> const& keys, size_t maxlen, std::string const& tag )
{
    std::vector<POp> alpha;
    for ( int o : ops ) for ( int k : keys ) alpha.push_back( POp{ o, k, 0 } );
    std::vector<TProg> seqs = sequences( alpha, maxlen );
    std::vector<TProg> prefixes = { {}, { { INS, keys[0], 0 } }, { { INS, keys[0], 0 }, { INS, keys.size() > 1 ? keys[1] : keys[0] + 1, 0 } } };
    return two_thread_programs( seqs, prefixes, tag );
}

template <class Adapter>
inline void add_set_programs( std::vector<cdsmc::Scenario>& out, std::string const& base, std::vector<Program> const& progs, int nthreads, int maxkey, int step, int bq, int bt,
    std::vector<int> keys = std::vector<int>(), int step1 = 1 )
{
    SetCfg cfg = keys.empty() ? SetCfg( nthreads, maxkey ) : SetCfg( nthreads, keys );
    // every program is in the quick tier: every step-th one at the full quick bound, the others at one preemption (cheap, and enough
    // for the many bugs that need a single ill-timed switch); the thorough tier runs all of them at bt
    int n = 0;
    for ( auto const& p : progs )
    {
        // step1 > 1 (containers with very long operations): only every step1-th program is in the quick tier at all
        bool full = ( n % step ) == 0, in_quick = full || ( n % step1 ) == 0;
        ++n;
        out.push_back( make_scenario<Adapter>( base, p, cfg, in_quick ? 0 : 1, full ? bq : ( bq > 1 ? 1 : bq ), bt ));
    }
}

// curated programs with the extended alphabet and three threads
inline std::vector<Program> set_curated( bool with_delete, bool with_extract, std::vector<int> km = { 0, 1, 2, 3 } )
{
    // km maps the abstract keys 1,2,3 of the programs below to the keys of the family (colliding hashes, shared prefixes, ...)
    std::vector<Program> v0, &v = v0;
    auto P = [&]( std::string name, TProg pre, std::vector<TProg> th ) { Program p; p.name = name; p.prefix = pre; p.threads = th; v.push_back( p ); };
    P( "upsert-vs-upsert", {}, { { { UPD_INS, 1, 15 } }, { { UPD_INS, 1, 16 } } } );
    P( "upsert-vs-ins", {}, { { { UPD_INS, 1, 15 }, { FIND_F, 1, 0 } }, { { INS_F, 1, 17 } } } );
    P( "update-vs-ins", {}, { { { UPD_NOINS, 1, 15 } }, { { INS, 1, 0 }, { FIND_F, 1, 0 } } } );
    P( "emplace-vs-find", { { INS, 2, 0 } }, { { { EMPLACE, 1, 12 }, { HAS, 2, 0 } }, { { FIND_F, 1, 0 }, { FIND_F, 2, 0 } } } );
    if ( with_delete ) {
        P( "upsert-vs-del", { { INS, 1, 0 } }, { { { UPD_INS, 1, 15 } }, { { DEL_F, 1, 0 } } } );
        P( "del-vs-del", { { INS, 1, 0 }, { INS, 2, 0 } }, { { { DEL, 1, 0 }, { HAS, 2, 0 } }, { { DEL, 1, 0 }, { DEL, 2, 0 } } } );
        P( "ins-del-neighbours", { { INS, 2, 0 } }, { { { INS, 1, 0 }, { DEL, 2, 0 } }, { { INS, 3, 0 }, { HAS, 2, 0 } } } );
        P( "3t-ins-del-has", { { INS, 2, 0 } }, { { { INS, 1, 0 } }, { { DEL, 2, 0 } }, { { HAS, 1, 0 }, { HAS, 2, 0 } } } );
        P( "3t-del-ins-ins", { { INS, 1, 0 }, { INS, 3, 0 } }, { { { DEL, 1, 0 } }, { { INS, 2, 0 } }, { { DEL, 3, 0 }, { INS, 1, 0 } } } );
    }
    if ( with_extract ) {
        P( "extract-vs-get", { { INS, 1, 0 } }, { { { EXTRACT, 1, 0 } }, { { GET, 1, 0 }, { INS_F, 1, 19 } } } );
        P( "extract-vs-extract", { { INS, 1, 0 }, { INS, 2, 0 } }, { { { EXTRACT, 1, 0 }, { GET, 2, 0 } }, { { EXTRACT, 1, 0 }, { EXTRACT, 2, 0 } } } );
        P( "get-vs-del-ins", { { INS, 1, 0 } }, { { { GET, 1, 0 }, { GET, 1, 0 } }, { { DEL, 1, 0 }, { INS_F, 1, 19 } } } );
    }
    for ( auto& p : v ) { for ( auto& o : p.prefix ) o.a = km[size_t( o.a )]; for ( auto& t : p.threads ) for ( auto& o : t ) o.a = km[size_t( o.a )]; }
    return v;
}

// unlink( item ) of the intrusive API: removes exactly that item. INS_F inserts items with another identity than the prefix items
template <class Adapter>
inline void add_unlink_programs( std::vector<cdsmc::Scenario>& out, std::string const& base, std::vector<int> km, std::vector<int> universe, int step, int bq, int bt )
{
    add_set_programs<Adapter>( out, base, set_grammar( { UNLINK, INS_F, DEL }, { km[1], km[2] }, 2, "u" ), 2, 3, step, bq, bt, universe );
    auto P = [&]( std::string name, TProg pre, std::vector<TProg> th ) {
        Program p; p.name = name; p.prefix = pre; p.threads = th;
        for ( auto& o : p.prefix ) o.a = km[size_t( o.a )];
        for ( auto& t : p.threads ) for ( auto& o : t ) o.a = km[size_t( o.a )];
        SetCfg cfg = universe.empty() ? SetCfg( int( th.size()), 3 ) : SetCfg( int( th.size()), universe );
        out.push_back( make_scenario<Adapter>( base, p, cfg, 0, th.size() > 2 ? 2 : bq, th.size() > 2 ? 2 : bt ));
    };
    P( "unlink-vs-ins-next", { { INS, 1, 0 }, { INS, 3, 0 } }, { { { UNLINK, 1, 0 }, { HAS, 1, 0 } }, { { INS, 2, 0 }, { HAS, 1, 0 } } } );
    P( "unlink-vs-del-next", { { INS, 1, 0 }, { INS, 2, 0 } }, { { { UNLINK, 1, 0 }, { HAS, 2, 0 } }, { { DEL, 2, 0 }, { HAS, 1, 0 } } } );
    P( "unlink-vs-unlink", { { INS, 1, 0 }, { INS, 2, 0 } }, { { { UNLINK, 1, 0 }, { UNLINK, 2, 0 } }, { { UNLINK, 2, 0 }, { UNLINK, 1, 0 } } } );
    P( "unlink-vs-replace", { { INS, 1, 0 } }, { { { UNLINK, 1, 0 }, { FIND_F, 1, 0 } }, { { DEL, 1, 0 }, { INS_F, 1, 17 } } } );
    P( "unlink-vs-extract", { { INS, 1, 0 }, { INS, 2, 0 } }, { { { UNLINK, 1, 0 } }, { { EXTRACT, 1, 0 }, { GET, 2, 0 } } } );
    P( "3t-unlink-ins-ins", { { INS, 2, 0 } }, { { { UNLINK, 2, 0 } }, { { INS, 1, 0 } }, { { INS, 3, 0 }, { HAS, 2, 0 } } } );
}

// C19: one iterating thread against updating threads; km = { 0, a, b, c, d } with a < b < c present at the start and d a new key.
// Every element gets its own value (the identity erase_at() and the interval rules go by).
template <class Adapter, class Caps>
inline void add_iter_programs( std::vector<cdsmc::Scenario>& out, std::string const& base, std::vector<int> km, std::vector<int> universe, int bq, int bt )
{
    auto P = [&]( std::string name, TProg pre, std::vector<TProg> th ) {
        Program p; p.name = name; p.prefix = pre; p.threads = th;
        for ( auto& o : p.prefix ) o.a = km[size_t( o.a )];
        for ( auto& t : p.threads ) for ( auto& o : t ) o.a = km[size_t( o.a )];
        out.push_back( make_scenario<Adapter>( base, p, SetCfg( int( th.size()), universe ), 0, th.size() > 2 ? ( bq > 1 ? bq - 1 : 1 ) : bq, th.size() > 2 ? bt - 1 : bt ));
    };
    TProg abc = { { INS, 1, 0 }, { INS, 2, 0 }, { INS, 3, 0 } };
    std::vector<int> dirs = { ITER }; if ( Caps::has_riter::value ) dirs.push_back( RITER );
    for ( int it : dirs ) {
        std::string d = it == ITER ? "" : "r";
        P( d + "iter-vs-del", abc, { { { it, 0, 0 } }, { { DEL, 2, 0 } } } );
        P( d + "iter-vs-del-first", abc, { { { it, 0, 0 } }, { { DEL, 1, 0 }, { INS_F, 1, 91 } } } );
        P( d + "iter-vs-del-last", abc, { { { it, 0, 0 } }, { { DEL, 3, 0 }, { DEL, 2, 0 } } } );
        P( d + "iter-vs-ins", abc, { { { it, 0, 0 } }, { { INS_F, 4, 92 } } } );
        P( d + "iter-vs-upsert", abc, { { { it, 0, 0 } }, { { UPD_INS, 2, 93 } } } );
        P( d + "iter-vs-del-ins", abc, { { { it, 0, 0 } }, { { DEL, 2, 0 }, { INS_F, 2, 94 } } } );
        P( d + "iter-iter-vs-del-ins", abc, { { { it, 0, 0 }, { it, 0, 0 } }, { { DEL, 2, 0 }, { INS_F, 2, 98 } } } );
        P( d + "3t-iter-del-ins", abc, { { { it, 0, 0 } }, { { DEL, 1, 0 } }, { { INS_F, 4, 97 }, { DEL, 3, 0 } } } );
        P( d + "iter-grow", { { INS, 1, 0 } }, { { { it, 0, 0 } }, { { INS_F, 2, 81 }, { INS_F, 3, 82 } } } );
        if ( Caps::has_erase_at::value ) {
            P( d + "eraseat-vs-del", abc, { { { it, 2, 0 }, { HAS, 2, 0 } }, { { DEL, 2, 0 } } } );
            P( d + "eraseat-vs-upsert", abc, { { { it, 2, 0 } }, { { UPD_INS, 2, 95 }, { FIND_F, 2, 0 } } } );
            P( d + "eraseat-vs-eraseat", abc, { { { it, 2, 0 } }, { { it, 2, 0 } } } );
            P( d + "eraseat-vs-extract-reinsert", abc, { { { it, 2, 0 } }, { { DEL, 2, 0 }, { INS_F, 2, 96 } } } );
            // linking an adjacent item marks the neighbours' data pointers for a moment: erase_at() must not give up because of that
            P( d + "eraseat-vs-ins-adjacent", abc, { { { it, 2, 0 }, { HAS, 2, 0 } }, { { INS_F, 4, 92 } } } );
            P( d + "eraseat-last-vs-ins-adjacent", abc, { { { it, 3, 0 }, { HAS, 3, 0 } }, { { INS_F, 4, 92 }, { DEL, 4, 0 } } } );
            P( d + "eraseat-single", { { INS, 1, 0 } }, { { { it, 1, 0 } }, { { DEL, 1, 0 }, { INS_F, 1, 99 } } } );
            P( d + "3t-eraseat-del-ins", abc, { { { it, 2, 0 } }, { { DEL, 2, 0 } }, { { INS_F, 4, 97 }, { FIND_F, 2, 0 } } } );
        }
    }
}

} // namespace vh

#endif
