// C11: priority queues conserve items and honour priority order (DESIGN.md 9/C11)
#include "cont.h"
#include "seq.h"
#include "smr_holders.h"
#include <cds/container/mspriority_queue.h>
#include <cds/container/fcpriority_queue.h>
#include <vector>
#include <deque>

using namespace vh;
using namespace cdsmc;
namespace cc = cds::container;

namespace {

struct PCfg { int nthreads; int capacity; };

template <class Q> inline void thread_exit_hook( Q& ) {}
template <class T, class C, class Tr> inline void thread_exit_hook( cc::FCPriorityQueue<T, C, Tr>& q ) { q.m_FlatCombining.m_pThreadRec.reset(); }

// ---- MSPriorityQueue: relaxed oracle ------------------------------------------------------------------------------
template <class Q>
struct MsPqAdapter
{
    PCfg cfg; std::unique_ptr<Q> q;
    explicit MsPqAdapter( PCfg c ): cfg( c ) {}
    static const char* property() { return "C11"; }
    long cap = 0;   // the queue's own capacity() is the authority (the constructor argument sizes the heap array, which is rounded up to 2^k and loses slot 0)
    void setup() { attach(); q.reset( new Q( size_t( cfg.capacity ))); cap = long( q->capacity()); }
    void teardown() { q.reset(); detach(); }
    void thread_begin( int ) { attach(); }
    void thread_end( int ) { detach(); }
    void apply( int t, History& h, POp const& op )
    {
        switch ( op.op ) {
        case PQ_PUSH: { int i = h.call( t, PQ_PUSH, op.a ); bool ok = q->push( op.a ); h.ret( i, ok ); break; }
        case PQ_POP: { int i = h.call( t, PQ_POP ); long v = -1; bool ok = q->pop( v ); h.ret( i, ok, ok ? v : 0 ); break; }
        case EMPTY: { int i = h.call( t, EMPTY ); h.ret( i, q->empty() ? 1 : 0 ); break; }
        case SIZE: { int i = h.call( t, SIZE ); h.ret( i, long( q->size())); break; }
        case CLEAR: { int i = h.call( t, CLEAR ); q->clear(); h.ret( i, 1 ); break; }
        default: break;
        }
    }
    std::string shape_err;
    void quiescent( Result&, History const& )
    {
        // heap well-formedness at the quiescent point: every occupied slot Available, heap order, no value in an unused slot
        auto& base = (typename Q::base_class&)( *q );   // protected base: C-style cast
        size_t n = size_t( base.m_ItemCounter.value());
        size_t cap = base.m_Heap.capacity();
        size_t occupied = 0;
        for ( size_t i = 1; i < cap; ++i ) {
            auto& nd = base.m_Heap[i];
            if ( nd.m_pVal ) {
                ++occupied;
                if ( nd.m_nTag != decltype( nd.m_nTag )( -1 ) /*Available*/ ) shape_err = "occupied heap slot " + std::to_string( i ) + " is not tagged Available at a quiescent point";
                if ( i > 1 && base.m_Heap[i / 2].m_pVal && *base.m_Heap[i / 2].m_pVal < *nd.m_pVal ) shape_err = "heap order violated between slot " + std::to_string( i / 2 ) + " and " + std::to_string( i );
                if ( i > 1 && !base.m_Heap[i / 2].m_pVal ) shape_err = "slot " + std::to_string( i ) + " occupied but its parent is empty";
            }
            else if ( nd.m_nTag != 0 /*Empty*/ ) shape_err = "empty heap slot " + std::to_string( i ) + " is not tagged Empty";
        }
        if ( occupied != n ) shape_err = "item counter says " + std::to_string( n ) + " items, heap holds " + std::to_string( occupied );
        q_err = shape_err;
    }
    std::string q_err;      // seqmc looks here after every operation
    void drain( History& h )
    {
        { int i = h.call( -1, SIZE ); h.ret( i, long( q->size())); }
        for ( int n = 0; n < 64; ++n ) { int i = h.call( -1, PQ_POP ); long v = -1; bool ok = q->pop( v ); h.ret( i, ok, ok ? v : 0 ); if ( !ok ) break; }
        int i = h.call( -1, EMPTY ); h.ret( i, q->empty());
    }
    // ContRun checks linearizability with spec(); for MSPriorityQueue that is demanded only when no push overlaps a pop,
    // so the unconditional part is done here and spec() is made vacuous otherwise (see relaxed flag).
    bool overlap_push_pop = false;
    void post_check( Result& r, History const& h )
    {
        if ( !shape_err.empty()) { r.fail( "C11:heap-shape", shape_err ); return; }
        // (i) conservation
        std::multiset<long> pushed, popped;
        for ( Op const& o : h.ops ) {
            if ( o.op == PQ_PUSH && o.res ) pushed.insert( o.arg );
            if ( o.op == PQ_POP && o.res ) popped.insert( o.res2 );
        }
        bool cleared = false; for ( Op const& o : h.ops ) if ( o.op == CLEAR ) cleared = true;     // sequential conformance runs only: the model accounts for clear()
        if ( !cleared && pushed != popped ) { r.fail( "C11:not-conserved", "the multiset of popped items (including the final drain) differs from the multiset of successfully pushed items" ); return; }
        // push fails only if capacity items can have been present at some instant of the call (weakest reading)
        for ( Op const& f : h.ops ) {
            if ( f.op != PQ_PUSH || f.res ) continue;
            long maxsize = 0;
            for ( Op const& o : h.ops ) {
                if ( o.op == PQ_PUSH && o.res && o.inv < f.ret ) ++maxsize;
                if ( o.op == PQ_POP && o.res && o.ret < f.inv ) --maxsize;
            }
            if ( maxsize < cap ) { r.fail( "C11:spurious-full", "push reported full although fewer than capacity items can have been present at any instant of the call" ); return; }
        }
        for ( Op const& a : h.ops ) for ( Op const& b : h.ops )
            if ( a.op == PQ_PUSH && b.op == PQ_POP && a.thread >= 0 && b.thread >= 0 && a.inv < b.ret && b.inv < a.ret ) overlap_push_pop = true;
        r.aux[1] = overlap_push_pop ? 0 : 1;    // executions checked against the full bounded max-PQ specification
    }
    struct Spec: PQSpec { bool vacuous = false; bool step( Op const& o ) { return vacuous || PQSpec::step( o ); } std::string key() const { return vacuous ? std::string() : PQSpec::key(); } };
    Spec spec() const { Spec s; s.cap = cap; s.vacuous = overlap_push_pop; return s; }
};

// ---- FCPriorityQueue: full linearizability ------------------------------------------------------------------------
template <class Q>
struct FcPqAdapter
{
    PCfg cfg; std::unique_ptr<Q> q;
    explicit FcPqAdapter( PCfg c ): cfg( c ) {}
    static const char* property() { return "C11"; }
    void setup() { attach(); q.reset( new Q ); }
    void teardown() { q.reset(); detach(); }
    void thread_begin( int ) { attach(); }
    void thread_end( int ) { thread_exit_hook( *q ); detach(); }
    void apply( int t, History& h, POp const& op )
    {
        switch ( op.op ) {
        case PQ_PUSH: { int i = h.call( t, PQ_PUSH, op.a ); bool ok = q->push( op.a ); h.ret( i, ok ); break; }
        case PQ_POP: { int i = h.call( t, PQ_POP ); long v = -1; bool ok = q->pop( v ); h.ret( i, ok, ok ? v : 0 ); break; }
        case EMPTY: { int i = h.call( t, EMPTY ); h.ret( i, q->empty() ? 1 : 0 ); break; }
        case SIZE: { int i = h.call( t, SIZE ); h.ret( i, long( q->size())); break; }
        case CLEAR: { int i = h.call( t, CLEAR ); q->clear(); h.ret( i, 1 ); break; }
        default: break;
        }
    }
    void quiescent( Result&, History const& ) {}
    void drain( History& h )
    {
        { int i = h.call( -1, SIZE ); h.ret( i, long( q->size())); }
        for ( int n = 0; n < 64; ++n ) { int i = h.call( -1, PQ_POP ); long v = -1; bool ok = q->pop( v ); h.ret( i, ok, ok ? v : 0 ); if ( !ok ) break; }
        int i = h.call( -1, EMPTY ); h.ret( i, q->empty());
    }
    void post_check( Result&, History const& ) {}
    PQSpec spec() const { return PQSpec(); }
};

// A heap buffer whose capacity is exactly what was asked for (like initialized_dynamic_buffer with Exp2 = false),
// with checked indexing: an access outside the array is a violation (memory safety is a precondition of C11).
// Exp2 = true rounds the size up to a power of two like the default initialized_dynamic_buffer does.
template <typename T, bool Exp2 = false>
class checked_buffer
{
public:
    typedef T value_type;
    static constexpr const bool c_bExp2 = Exp2;
    template <typename Q, typename A = void, bool E = false> struct rebind { typedef checked_buffer<Q, Exp2> other; };
private:
    std::vector<T> buf_;
public:
    explicit checked_buffer( size_t n ): buf_( Exp2 ? cds::beans::ceil2( n ) : n ) {}
    checked_buffer( checked_buffer const& ) = delete;
    T& operator[]( size_t i )
    {
        if ( i >= buf_.size()) vh::fail_mid( "C11:heap-overflow", "heap slot " + std::to_string( i ) + " addressed in a heap array of " + std::to_string( buf_.size()) + " cells" );
        return buf_[i < buf_.size() ? i : 0];
    }
    T const& operator[]( size_t i ) const { return const_cast<checked_buffer*>( this )->operator[]( i ); }
    size_t capacity() const noexcept { return buf_.size(); }
    void zeroize() {}
    T* buffer() noexcept { return buf_.data(); }
    size_t mod( size_t idx ) { return Exp2 ? ( idx & ( capacity() - 1 )) : idx % capacity(); }
};

std::vector<Scenario> g_scen;

template <class Adapter>
void add_family( std::string const& base, int cap, std::vector<std::vector<long>> prefixes, int step, int bq, int bt, int bq3, int bt3 )
{
    if ( vh::property() == "C20" ) {
        // conformance with std::priority_queue (bounded for MSPriorityQueue): pushes with ties, pops, push on a full queue, size/empty/clear
        std::vector<POp> a = { { PQ_PUSH, 5, 0 }, { PQ_PUSH, 7, 0 }, { PQ_PUSH, 3, 0 }, { PQ_POP, 0, 0 }, { EMPTY, 0, 0 }, { SIZE, 0, 0 }, { CLEAR, 0, 0 } };
        std::vector<TProg> starts = { TProg() };
        if ( prefixes.size() > 1 ) { TProg p; for ( long v : prefixes.back()) p.push_back( POp{ PQ_PUSH, v, 0 } ); starts.push_back( p ); }
        add_seq_generic<Adapter, PCfg>( g_scen, base, PCfg{ 1, cap }, a, starts, 4, 6 );
        return;
    }
    // priorities with ties: values 5,5,7,3 ...
    std::vector<POp> alpha = { { PQ_PUSH, 5, 0 }, { PQ_PUSH, 7, 0 }, { PQ_POP, 0, 0 } };
    std::vector<TProg> seqs = sequences( alpha, 2 );
    std::vector<TProg> pre;
    for ( auto const& pv : prefixes ) { TProg p; for ( long v : pv ) p.push_back( POp{ PQ_PUSH, v, 0 } ); pre.push_back( p ); }
    std::vector<Program> progs = two_thread_programs( seqs, pre, "g" );
    int n = 0;
    for ( auto const& p : progs )
        g_scen.push_back( make_scenario<Adapter>( base, p, PCfg{ 2, cap }, ( n++ % step ) == 0 ? 0 : 1, bq, bt ));
    { Program p; p.name = "3t-push-push-pop"; p.prefix = pre.size() > 1 ? pre[1] : TProg(); p.threads = { { { PQ_PUSH, 6, 0 } }, { { PQ_PUSH, 8, 0 } }, { { PQ_POP, 0, 0 }, { PQ_POP, 0, 0 } } };
      g_scen.push_back( make_scenario<Adapter>( base, p, PCfg{ 3, cap }, step == 1 ? 0 : 1, bq3, bt3 )); }
    { Program p; p.name = "3t-pop-pop-push"; p.prefix = pre.back(); p.threads = { { { PQ_POP, 0, 0 } }, { { PQ_POP, 0, 0 } }, { { PQ_PUSH, 9, 0 }, { PQ_PUSH, 1, 0 } } };
      g_scen.push_back( make_scenario<Adapter>( base, p, PCfg{ 3, cap }, step == 1 ? 0 : 1, bq3, bt3 )); }
}

// the default power-of-two heap array, with checked indexing (an overflow of the real initialized_dynamic_buffer corrupts the
// malloc heap: the worker dies at some later free() and the schedule does not reproduce); the real buffer runs in the ASan unit
#ifdef PQ_REAL_BUFFER
struct ms_traits: public cc::mspriority_queue::traits { typedef std::less<long> less; };
struct ms_traits_mutex: public cc::mspriority_queue::traits { typedef std::less<long> less; typedef cds_verif::mutex lock_type; };
#else
struct ms_traits: public cc::mspriority_queue::traits { typedef std::less<long> less; typedef checked_buffer<char, true> buffer; };
struct ms_traits_mutex: public cc::mspriority_queue::traits { typedef std::less<long> less; typedef cds_verif::mutex lock_type; typedef checked_buffer<char, true> buffer; };
#endif
struct ms_traits_chk: public cc::mspriority_queue::traits { typedef std::less<long> less; typedef checked_buffer<char> buffer; };
struct fc_traits_m: public cc::fcpqueue::traits { typedef cds_verif::mutex lock_type; };

} // namespace

int main( int argc, char** argv )
{
    vh::take_property( argc, argv, "C11" );
    cds::Initialize();

    typedef cc::MSPriorityQueue<long, ms_traits> mspq;
    typedef cc::MSPriorityQueue<long, ms_traits_mutex> mspq_m;
    typedef cc::FCPriorityQueue<long> fcpq;
    typedef cc::FCPriorityQueue<long, std::priority_queue<long, std::deque<long>>, fc_traits_m> fcpq_dm;

    add_family<MsPqAdapter<mspq>>( "MSPriorityQueue-arg2-cap1", 2, { {}, { 4 } }, 2, 2, 3, 1, 2 );
    add_family<MsPqAdapter<mspq>>( "MSPriorityQueue-arg4-cap3", 4, { {}, { 4 }, { 4, 6 }, { 4, 6, 2 } }, 2, 2, 3, 1, 2 );
    add_family<MsPqAdapter<mspq>>( "MSPriorityQueue-arg5-cap7", 5, { { 4, 6, 2 }, { 4, 6, 2, 9, 1 } }, 3, 2, 3, 1, 2 );
    add_family<MsPqAdapter<mspq_m>>( "MSPriorityQueue-mutex-arg3-cap3", 3, { {}, { 4, 6 } }, 4, 2, 3, 1, 2 );
    // heap arrays that are not a power of two (a buffer type the traits accept): capacity() is 5 resp. 2
    typedef cc::MSPriorityQueue<long, ms_traits_chk> mspq_chk;
    add_family<MsPqAdapter<mspq_chk>>( "MSPriorityQueue-heap6", 6, { { 4, 6, 2, 9 }, { 4, 6, 2 } }, 6, 1, 2, 1, 1 );
    add_family<MsPqAdapter<mspq_chk>>( "MSPriorityQueue-heap3", 3, { {}, { 4 } }, 6, 1, 2, 1, 1 );
    add_family<FcPqAdapter<fcpq>>( "FCPriorityQueue", 0, { {}, { 4 }, { 4, 6 } }, 3, 1, 2, 1, 1 );
    add_family<FcPqAdapter<fcpq_dm>>( "FCPriorityQueue-deque-mutex", 0, { {}, { 4, 6 } }, 6, 1, 2, 1, 1 );

    Options o; o.property = vh::property().c_str();
    o.default_bound_quick = 2; o.default_bound_thorough = 3;
    return main_run( argc, argv, g_scen, o );
}
