// cdsmc: harness-facing API of the stateless preemption-bounded explorer (DESIGN.md 4).
#ifndef CDS_VERIF_CDSMC_H
#define CDS_VERIF_CDSMC_H

#include <cstdint>
#include <functional>
#include <memory>
#include <string>
#include <vector>
#include <cds_verif/sched.h>

namespace cdsmc {

// What one complete execution reports to the explorer (filled in Run::check, after teardown).
struct Result {
    bool        failed = false;
    std::string message;            // first failure
    std::string signature;          // stable class of the failure (for known-findings matching)
    uint64_t    outcome_hash = 0;   // hash of the observable history (distinct-outcome counting)
    bool        nontrivial = false; // e.g. two operations on the same object overlapped
    std::string description;        // human-readable history (kept for samples / replay output)
    uint64_t    aux[4] = {0,0,0,0}; // harness-defined counters, summed into evidence (e.g. quiescent states checked)

    void fail( std::string const& sig, std::string const& msg )
    {
        if ( !failed ) { failed = true; signature = sig; message = msg; }
    }
};

// One execution of a scenario = one fresh Run object.
struct Run {
    virtual ~Run() {}
    virtual int  nthreads() const = 0;
    virtual void setup() {}             // controller; scheduler participant, no branching
    virtual void prologue( int ) {}     // worker t, before the explored window (serial, no branching)
    virtual void thread( int t ) = 0;   // worker t, explored
    virtual void epilogue( int ) {}     // worker t, after the window (serial, no branching)
    virtual void teardown() {}          // controller
    virtual void check( Result& ) {}    // after teardown, scheduler off
};

struct Scenario {
    std::string id;                                 // stable name (part of replay files and known findings)
    std::function<std::unique_ptr<Run>()> make;
    int      bound_quick = -1;                      // -1: tier default
    int      bound_thorough = -1;
    unsigned horizon = 20000;                       // max explored steps per execution
    unsigned livelock_limit = 48;                   // consecutive back-off reports without a value change
    bool     livelock_is_violation = true;          // an operation that never returns (deadlock/livelock) violates every property here
    int      tier = 0;                              // 0: quick and thorough, 1: thorough only
};

struct Options {
    const char* property = "";
    int default_bound_quick = 2;
    int default_bound_thorough = 3;
};

// Parses argv (see cdsmc.cpp: --tier, --jobs, --bound, --deadline, --out, --replay, --filter, --list)
// explores every scenario, writes the JSON result file and returns the process exit code.
int main_run( int argc, char** argv, std::vector<Scenario>& scenarios, Options const& opt );

// helpers for harnesses
inline uint64_t hash_mix( uint64_t h, uint64_t v )
{
    h ^= v + 0x9e3779b97f4a7c15ull + ( h << 6 ) + ( h >> 2 );
    return h * 0xff51afd7ed558ccdull;
}
inline uint64_t hash_str( std::string const& s )
{
    uint64_t h = 1469598103934665603ull;
    for ( unsigned char c : s ) { h ^= c; h *= 1099511628211ull; }
    return h;
}

} // namespace cdsmc

#endif
