// cdsmc scheduler interface (see DESIGN.md section 4).
// Everything libcds sees of the model checker goes through these few functions.
#ifndef CDS_VERIF_SCHED_H
#define CDS_VERIF_SCHED_H

#include <cstddef>
#include <cstdint>
#include <functional>

namespace cds_verif {

enum Kind : uint8_t {
    K_LOAD = 0, K_STORE, K_RMW, K_CAS, K_FENCE,
    K_LOCK, K_UNLOCK, K_TRYLOCK, K_CVWAIT, K_NOTIFY,
    K_SPAWN, K_JOIN, K_EXIT, K_BACKOFF, K_CHOOSE, K_USER, K_BARRIER
};

// memory orders as small ints (same numbering as std::memory_order)
enum { MO_RELAXED = 0, MO_CONSUME, MO_ACQUIRE, MO_RELEASE, MO_ACQ_REL, MO_SEQ_CST };

// true iff the calling thread is a scheduler participant of a running execution
bool active() noexcept;

// Scheduling point: called *before* a synchronisation operation is performed.
void point( const void* addr, Kind k ) noexcept;

// Called after an atomic operation: 'wrote' = it stored, 'changed' = the stored value differs
// from the previous one. Feeds the back-off rule (4.3) and the happens-before tracker (7.6).
void after_op( const void* addr, Kind k, int mo, bool wrote, bool changed ) noexcept;

// H2: the calling thread is in a back-off (spin-wait or CAS-retry) iteration
void backoff_report() noexcept;

// Environment choice owned by the explorer: returns a value in [0,n)
unsigned choose( unsigned n ) noexcept;

// logical clock (one tick per call), used to stamp invocation/response events
uint64_t stamp() noexcept;
// Invocation stamp of an operation the calling thread is about to start: *slot receives the clock value at the moment the thread
// executes its next scheduling point (or calls stamp()), not now. An operation cannot observe or change shared state before its
// first atomic step, so a real execution in which the call was made at that later moment behaves identically: the later stamp is
// sound, and it orders the operation after everything that completed while the thread was descheduled "between" two operations.
// *slot must stay valid until then.
void stamp_inv( uint64_t* slot ) noexcept;
// The harness's allocator reports a block it has released (and keeps mapped until the execution ends, so that the address is not
// reused): from now on every instrumented access (atomic operation, lock) inside the block is a violation 'use-after-free'.
// The list is cleared when the next execution starts. 'what' must be a string literal.
void region_freed( const void* p, size_t n, const char* what ) noexcept;
void regions_reset() noexcept;      // the harness is about to release the quarantined blocks (a new sequence starts inside one execution)
// seqmc helpers: a description of what the harness is doing (appended to the message of any violation raised meanwhile), and a budget
// of instrumented steps after which the execution is a violation 'no-progress' (0 = no budget). Both are reset at every execution.
void set_context( const char* what ) noexcept;
void set_step_budget( uint64_t n ) noexcept;

// Identity of the calling participant (0 = controller, 1..N workers, then background threads); -1 if none
int self_id() noexcept;

// Report a property violation detected in the middle of an execution. Does not return when called
// from inside a running execution (the worker process records the schedule and exits).
[[noreturn]] void fail_now( const char* what ) noexcept;
[[noreturn]] void fail_sig( const char* signature, const char* message ) noexcept;

// Asynchronous signal delivery (DESIGN 4.6): which participant owns this pthread id (-1: none), and run a handler on it
int participant_of( unsigned long pthread_id ) noexcept;
void run_on( int target, void (*fn)( void* ), void* arg ) noexcept;

// Worker-thread phase barriers (three-phase bodies, DESIGN 4.4): everything between
// explore_begin() and explore_end() is explored; prologue/epilogue run one thread at a time.
void explore_begin() noexcept;
void explore_end() noexcept;

// ---- happens-before tracker for harness payloads (7.6) ----
// access to a harness-owned payload location; is_write: construct/copy-into/destroy
void hb_access( const void* addr, bool is_write, const char* what ) noexcept;
void hb_forget( const void* addr ) noexcept;    // payload storage recycled

// ---- primitives used by cds_verif::mutex / condition_variable / thread ----
namespace detail {
    struct mutex_state { int owner = 0; int depth = 0; unsigned waiters = 0; };   // owner: participant id + 1, 0 = free (all-zero = unlocked)
    void mutex_lock( mutex_state& m, bool recursive ) noexcept;
    bool mutex_try_lock( mutex_state& m, bool recursive ) noexcept;
    void mutex_unlock( mutex_state& m ) noexcept;
    struct cv_state { unsigned waiters = 0; unsigned signalled = 0; };
    // returns false on timeout (only if timed)
    bool cv_wait( cv_state& cv, mutex_state& m, bool timed ) noexcept;
    void cv_notify( cv_state& cv, bool all ) noexcept;
    int  thread_spawn( std::function<void()> fn ) noexcept;   // returns participant id
    void thread_join( int id ) noexcept;
}

} // namespace cds_verif

#endif
