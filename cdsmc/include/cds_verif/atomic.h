// Instrumented C++11 atomics for libcds (hook H1, DESIGN.md 3 and 4.1).
// atomic<T> wraps a real std::atomic<T>, forwards every operation with the memory order the
// library asked for, and reports a scheduling point before it.
#ifndef CDS_VERIF_ATOMIC_H
#define CDS_VERIF_ATOMIC_H

#include <atomic>
#include <cstring>
#include <type_traits>
#include <cds_verif/sched.h>

namespace cds_verif { namespace atomics {

    using std::memory_order;
    using std::memory_order_relaxed;
    using std::memory_order_consume;
    using std::memory_order_acquire;
    using std::memory_order_release;
    using std::memory_order_acq_rel;
    using std::memory_order_seq_cst;

    namespace detail {
        // "did this write change the value": values are compared, except pointers - whether two pointers written one after the other are
        // equal depends on whether the allocator reused an address, i.e. on the history of the worker process, and the answer decides
        // the cost of other threads' yields (the shape of the schedule tree). A pointer write always counts as a change.
        template <typename T>
        inline bool differs( T const& a, T const& b ) noexcept
        {
            return std::is_pointer<T>::value || std::memcmp( &a, &b, sizeof( T )) != 0;
        }

        template <typename T>
        class atomic_common
        {
        protected:
            mutable std::atomic<T> v_;
            void const* addr() const volatile noexcept { return const_cast<std::atomic<T> const*>( &v_ ); }
            std::atomic<T>& v() const volatile noexcept { return const_cast<std::atomic<T>&>( v_ ); }

        public:
            // A default-constructed atomic is zero: libcds constructors often go on with a store() of the initial value, and
            // the "did this step change a value" flag the scheduler derives from store() must not depend on what the
            // heap block contained before (it decides the cost of yields, i.e. the shape of the schedule tree).
            atomic_common() noexcept : v_{} {}
            constexpr atomic_common( T val ) noexcept : v_( val ) {}
            atomic_common( atomic_common const& ) = delete;
            atomic_common& operator=( atomic_common const& ) = delete;
            atomic_common& operator=( atomic_common const& ) volatile = delete;

            bool is_lock_free() const volatile noexcept { return true; }

            void store( T val, memory_order mo = memory_order_seq_cst ) volatile noexcept
            {
                if ( !cds_verif::active()) { v().store( val, mo ); return; }
                cds_verif::point( addr(), K_STORE );
                // "did this step change a value" compares with the previous content. For a store into a freshly allocated block that
                // content must not depend on the history of the process (the flag decides the cost of other threads' yields, hence the
                // shape of the schedule tree): the engine makes malloc fill every block with a fixed pattern (M_PERTURB, see main_run)
                // and default-constructed instrumented atomics are zero.
                T old = v().load( memory_order_relaxed );
                v().store( val, mo );
                cds_verif::after_op( addr(), K_STORE, int( mo ), true, differs( old, val ));
            }

            T load( memory_order mo = memory_order_seq_cst ) const volatile noexcept
            {
                if ( !cds_verif::active()) return v().load( mo );
                cds_verif::point( addr(), K_LOAD );
                T r = v().load( mo );
                cds_verif::after_op( addr(), K_LOAD, int( mo ), false, false );
                return r;
            }

            operator T() const volatile noexcept { return load(); }

            T exchange( T val, memory_order mo = memory_order_seq_cst ) volatile noexcept
            {
                if ( !cds_verif::active()) return v().exchange( val, mo );
                cds_verif::point( addr(), K_RMW );
                T old = v().exchange( val, mo );
                cds_verif::after_op( addr(), K_RMW, int( mo ), true, differs( old, val ));
                return old;
            }

            // weak CAS is executed as strong: no spurious failures (x86 behaviour; DESIGN 8)
            bool compare_exchange_strong( T& expected, T desired, memory_order ms, memory_order mf ) volatile noexcept
            {
                if ( !cds_verif::active()) return v().compare_exchange_strong( expected, desired, ms, mf );
                cds_verif::point( addr(), K_CAS );
                T exp0 = expected;
                bool ok = v().compare_exchange_strong( expected, desired, ms, mf );
                cds_verif::after_op( addr(), K_CAS, int( ok ? ms : mf ), ok, ok && differs( exp0, desired ));
                return ok;
            }
            bool compare_exchange_strong( T& expected, T desired, memory_order mo = memory_order_seq_cst ) volatile noexcept
            {
                return compare_exchange_strong( expected, desired, mo, fail_order( mo ));
            }
            bool compare_exchange_weak( T& expected, T desired, memory_order ms, memory_order mf ) volatile noexcept
            {
                return compare_exchange_strong( expected, desired, ms, mf );
            }
            bool compare_exchange_weak( T& expected, T desired, memory_order mo = memory_order_seq_cst ) volatile noexcept
            {
                return compare_exchange_strong( expected, desired, mo, fail_order( mo ));
            }

        protected:
            static constexpr memory_order fail_order( memory_order mo ) noexcept
            {
                return mo == memory_order_acq_rel ? memory_order_acquire
                    : mo == memory_order_release ? memory_order_relaxed : mo;
            }

            template <typename F>
            T rmw( F f, memory_order mo ) volatile noexcept
            {
                if ( !cds_verif::active()) return f( v());
                cds_verif::point( addr(), K_RMW );
                T old = f( v());
                T cur = v().load( memory_order_relaxed );
                cds_verif::after_op( addr(), K_RMW, int( mo ), true, differs( old, cur ));
                return old;
            }
        };

        template <typename T>
        class atomic_integral: public atomic_common<T>
        {
            typedef atomic_common<T> base;
        public:
            atomic_integral() noexcept = default;
            constexpr atomic_integral( T val ) noexcept : base( val ) {}

#       define CDS_VERIF_FETCH( name ) \
            T name( T arg, memory_order mo = memory_order_seq_cst ) volatile noexcept \
            { return this->rmw( [arg, mo]( std::atomic<T>& a ) { return a.name( arg, mo ); }, mo ); }
            CDS_VERIF_FETCH( fetch_add )
            CDS_VERIF_FETCH( fetch_sub )
            CDS_VERIF_FETCH( fetch_and )
            CDS_VERIF_FETCH( fetch_or )
            CDS_VERIF_FETCH( fetch_xor )
#       undef CDS_VERIF_FETCH

            T operator++( int ) volatile noexcept { return fetch_add( 1 ); }
            T operator--( int ) volatile noexcept { return fetch_sub( 1 ); }
            T operator++() volatile noexcept { return T( fetch_add( 1 ) + 1 ); }
            T operator--() volatile noexcept { return T( fetch_sub( 1 ) - 1 ); }
            T operator+=( T v ) volatile noexcept { return T( fetch_add( v ) + v ); }
            T operator-=( T v ) volatile noexcept { return T( fetch_sub( v ) - v ); }
            T operator&=( T v ) volatile noexcept { return T( fetch_and( v ) & v ); }
            T operator|=( T v ) volatile noexcept { return T( fetch_or( v ) | v ); }
            T operator^=( T v ) volatile noexcept { return T( fetch_xor( v ) ^ v ); }
        };

        template <typename T, bool Integral>
        struct select_base { typedef atomic_common<T> type; };
        template <typename T>
        struct select_base<T, true> { typedef atomic_integral<T> type; };
    } // namespace detail

    template <typename T>
    class atomic: public detail::select_base< T, std::is_integral<T>::value && !std::is_same<T, bool>::value >::type
    {
        typedef typename detail::select_base< T, std::is_integral<T>::value && !std::is_same<T, bool>::value >::type base;
    public:
        atomic() noexcept = default;
        constexpr atomic( T val ) noexcept : base( val ) {}
        atomic( atomic const& ) = delete;
        atomic& operator=( atomic const& ) = delete;
        T operator=( T val ) volatile noexcept { this->store( val ); return val; }
    };

    template <typename T>
    class atomic<T*>: public detail::atomic_common<T*>
    {
        typedef detail::atomic_common<T*> base;
    public:
        atomic() noexcept = default;
        constexpr atomic( T* val ) noexcept : base( val ) {}
        atomic( atomic const& ) = delete;
        atomic& operator=( atomic const& ) = delete;
        T* operator=( T* val ) volatile noexcept { this->store( val ); return val; }

        T* fetch_add( std::ptrdiff_t d, memory_order mo = memory_order_seq_cst ) volatile noexcept
        { return this->rmw( [d, mo]( std::atomic<T*>& a ) { return a.fetch_add( d, mo ); }, mo ); }
        T* fetch_sub( std::ptrdiff_t d, memory_order mo = memory_order_seq_cst ) volatile noexcept
        { return this->rmw( [d, mo]( std::atomic<T*>& a ) { return a.fetch_sub( d, mo ); }, mo ); }
        T* operator++( int ) volatile noexcept { return fetch_add( 1 ); }
        T* operator--( int ) volatile noexcept { return fetch_sub( 1 ); }
        T* operator++() volatile noexcept { return fetch_add( 1 ) + 1; }
        T* operator--() volatile noexcept { return fetch_sub( 1 ) - 1; }
        T* operator+=( std::ptrdiff_t d ) volatile noexcept { return fetch_add( d ) + d; }
        T* operator-=( std::ptrdiff_t d ) volatile noexcept { return fetch_sub( d ) - d; }
    };

    inline void atomic_thread_fence( memory_order mo ) noexcept
    {
        if ( cds_verif::active()) {
            cds_verif::point( nullptr, K_FENCE );
            std::atomic_thread_fence( mo );
            cds_verif::after_op( nullptr, K_FENCE, int( mo ), false, false );
        }
        else
            std::atomic_thread_fence( mo );
    }
    inline void atomic_signal_fence( memory_order mo ) noexcept
    {
        std::atomic_signal_fence( mo );
    }

    typedef atomic<bool>            atomic_bool;
    typedef atomic<char>            atomic_char;
    typedef atomic<signed char>     atomic_schar;
    typedef atomic<unsigned char>   atomic_uchar;
    typedef atomic<short>           atomic_short;
    typedef atomic<unsigned short>  atomic_ushort;
    typedef atomic<int>             atomic_int;
    typedef atomic<unsigned int>    atomic_uint;
    typedef atomic<long>            atomic_long;
    typedef atomic<unsigned long>   atomic_ulong;
    typedef atomic<long long>       atomic_llong;
    typedef atomic<unsigned long long> atomic_ullong;
    typedef atomic<std::size_t>     atomic_size_t;
    typedef atomic<std::ptrdiff_t>  atomic_ptrdiff_t;
    typedef atomic<std::intptr_t>   atomic_intptr_t;
    typedef atomic<std::uintptr_t>  atomic_uintptr_t;

}} // namespace cds_verif::atomics

#endif
