// Histories and linearizability (DESIGN.md 7.1, 7.2): Wing-Gong search with memoisation.
#ifndef CDS_VERIF_LIN_H
#define CDS_VERIF_LIN_H

#include <cstdint>
#include <string>
#include <vector>
#include <set>
#include <utility>
#include <algorithm>
#include <cds_verif/cdsmc.h>

namespace cdsmc {

struct Op {
    int thread = 0;
    int op = 0;
    long arg = 0, arg2 = 0;
    long res = 0, res2 = 0;
    uint64_t inv = 0, ret = 0;
    bool done = false;
};

// Invocation/response events are stamped with the scheduler's logical clock: the response right after the operation's
// last step, the invocation when the thread executes the operation's first step (cds_verif::stamp_inv - a thread that is
// descheduled before the first step of its next operation has, observably, not called it yet). This yields the most
// constrained real-time order consistent with the interleaving: the strongest check (DESIGN 4, note on stamping).
class History {
public:
    std::vector<Op> ops;
    static constexpr size_t c_max_ops = 512;
    History() { ops.reserve( c_max_ops ); }     // stamp_inv keeps a pointer into the vector

    int call( int thread, int op, long arg = 0, long arg2 = 0 )
    {
        if ( ops.size() >= c_max_ops ) cds_verif::fail_sig( "engine", "History: more than c_max_ops operations" );
        Op o; o.thread = thread; o.op = op; o.arg = arg; o.arg2 = arg2;
        ops.push_back( o );
        cds_verif::stamp_inv( &ops.back().inv );
        return int( ops.size()) - 1;
    }
    void ret( int idx, long res, long res2 = 0 )
    {
        ops[idx].res = res; ops[idx].res2 = res2; ops[idx].ret = cds_verif::stamp(); ops[idx].done = true;
    }
    // sequential prefix operations (before the threads start): totally ordered before everything else
    void seq( int op, long arg, long res, long arg2 = 0, long res2 = 0 )
    {
        int i = call( -1, op, arg, arg2 ); ret( i, res, res2 );
    }

    bool has_overlap() const
    {
        for ( size_t i = 0; i < ops.size(); ++i )
            for ( size_t j = i + 1; j < ops.size(); ++j )
                if ( ops[i].thread != ops[j].thread && ops[i].inv < ops[j].ret && ops[j].inv < ops[i].ret ) return true;
        return false;
    }

    // order-insensitive across threads: per-thread sequences of (op,arg,result)
    uint64_t outcome_hash() const
    {
        uint64_t h = 0;
        std::vector<uint64_t> per( 16, 7 );
        for ( Op const& o : ops ) {
            uint64_t& p = per[size_t( o.thread + 1 ) % 16];
            p = hash_mix( p, uint64_t( o.op ));
            p = hash_mix( p, uint64_t( o.arg ));
            p = hash_mix( p, uint64_t( o.arg2 ));
            p = hash_mix( p, uint64_t( o.res ));
            p = hash_mix( p, uint64_t( o.res2 ));
        }
        for ( size_t i = 0; i < per.size(); ++i ) h = hash_mix( h, per[i] + i );
        return h;
    }

    template <class Namer>
    std::string str( Namer name ) const
    {
        // events in stamp order: "t1:enq(3)" at invocation, "t1:->true" at response
        std::vector<std::pair<uint64_t, std::string>> ev;
        for ( Op const& o : ops ) {
            std::string t = o.thread < 0 ? std::string( "seq" ) : "t" + std::to_string( o.thread );
            ev.push_back( { o.inv, t + ":" + name( o, false ) } );
            if ( o.done ) ev.push_back( { o.ret, t + ":" + name( o, true ) } );
        }
        std::sort( ev.begin(), ev.end());
        std::string s;
        for ( auto& e : ev ) { if ( !s.empty()) s += " "; s += e.second; }
        return s;
    }
};

// Spec requirements: copyable; bool step( Op const& ) applies the operation if its recorded result is legal in
// the current state (returns false otherwise, state then unspecified); std::string key() canonical state.
template <class Spec>
class LinChecker {
    std::vector<Op> const& ops_;
    std::set<std::pair<uint32_t, std::string>> seen_;
    size_t n_;

    bool rec( uint32_t done, Spec const& st )
    {
        if ( done == ( n_ >= 32 ? 0xffffffffu : (( 1u << n_ ) - 1 ))) return true;
        if ( !seen_.insert( { done, st.key() } ).second ) return false;
        // earliest response among pending operations bounds the candidates
        uint64_t min_ret = ~0ull;
        for ( size_t i = 0; i < n_; ++i )
            if ( !( done & ( 1u << i )) && ops_[i].ret < min_ret ) min_ret = ops_[i].ret;
        for ( size_t i = 0; i < n_; ++i ) {
            if ( done & ( 1u << i )) continue;
            if ( ops_[i].inv > min_ret ) continue;     // some pending op returned before this one was invoked
            Spec s2 = st;
            if ( s2.step( ops_[i] ) && rec( done | ( 1u << i ), s2 )) return true;
        }
        return false;
    }

public:
    explicit LinChecker( std::vector<Op> const& ops ): ops_( ops ), n_( ops.size()) {}
    bool check( Spec const& init ) { seen_.clear(); return n_ <= 31 && rec( 0, init ); }
};

template <class Spec>
inline bool linearizable( History const& h, Spec const& init )
{
    LinChecker<Spec> c( h.ops );
    return c.check( init );
}

} // namespace cdsmc

#endif
