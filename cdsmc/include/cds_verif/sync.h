// Scheduler-aware replacements for std::mutex / recursive_mutex / condition_variable / thread
// (DESIGN.md 4.6). When the scheduler is not active they behave like the std ones (used by the
// free-running ThreadSanitizer pass and by code that runs before/after executions).
#ifndef CDS_VERIF_SYNC_H
#define CDS_VERIF_SYNC_H

#include <mutex>
#include <condition_variable>
#include <thread>
#include <chrono>
#include <memory>
#include <cds_verif/sched.h>

namespace cds_verif {

    template <bool Recursive>
    class basic_mutex
    {
        detail::mutex_state st_;
        typename std::conditional<Recursive, std::recursive_mutex, std::mutex>::type real_;
        friend class condition_variable;
    public:
        basic_mutex() = default;
        basic_mutex( basic_mutex const& ) = delete;
        basic_mutex& operator=( basic_mutex const& ) = delete;

        void lock()
        {
            if ( active()) detail::mutex_lock( st_, Recursive );
            else real_.lock();
        }
        bool try_lock()
        {
            if ( active()) return detail::mutex_try_lock( st_, Recursive );
            return real_.try_lock();
        }
        void unlock()
        {
            if ( active()) detail::mutex_unlock( st_ );
            else real_.unlock();
        }
        // for monitors/oracles
        int verif_owner() const { return st_.owner - 1; }
    };

    typedef basic_mutex<false> mutex;
    typedef basic_mutex<true>  recursive_mutex;

    class condition_variable
    {
        detail::cv_state st_;
        std::condition_variable_any real_;
    public:
        condition_variable() = default;
        condition_variable( condition_variable const& ) = delete;

        void notify_one() noexcept
        {
            if ( active()) detail::cv_notify( st_, false );
            else real_.notify_one();
        }
        void notify_all() noexcept
        {
            if ( active()) detail::cv_notify( st_, true );
            else real_.notify_all();
        }
        void wait( std::unique_lock<mutex>& lk )
        {
            if ( active()) detail::cv_wait( st_, lk.mutex()->st_, false );
            else real_.wait( lk );
        }
        template <class Pred>
        void wait( std::unique_lock<mutex>& lk, Pred pred )
        {
            while ( !pred()) wait( lk );
        }
        template <class Rep, class Period>
        std::cv_status wait_for( std::unique_lock<mutex>& lk, std::chrono::duration<Rep, Period> const& d )
        {
            if ( active())
                return detail::cv_wait( st_, lk.mutex()->st_, true ) ? std::cv_status::no_timeout : std::cv_status::timeout;
            return real_.wait_for( lk, d );
        }
        template <class Rep, class Period, class Pred>
        bool wait_for( std::unique_lock<mutex>& lk, std::chrono::duration<Rep, Period> const& d, Pred pred )
        {
            while ( !pred()) {
                if ( wait_for( lk, d ) == std::cv_status::timeout )
                    return pred();
            }
            return true;
        }
    };

    class thread
    {
        int id_ = -1;
        std::unique_ptr<std::thread> real_;
    public:
        thread() = default;
        thread( thread&& ) = default;
        thread& operator=( thread&& ) = default;

        template <class F, class... Args>
        explicit thread( F&& f, Args&&... args )
        {
            auto fn = std::bind( std::forward<F>( f ), std::forward<Args>( args )... );
            if ( active())
                id_ = detail::thread_spawn( std::function<void()>( fn ));
            else
                real_.reset( new std::thread( fn ));
        }
        bool joinable() const { return id_ >= 0 || ( real_ && real_->joinable()); }
        void join()
        {
            if ( id_ >= 0 ) { detail::thread_join( id_ ); id_ = -1; }
            else if ( real_ ) real_->join();
        }
    };

} // namespace cds_verif

#endif
