// cdsmc: cooperative deterministic scheduler + stateless preemption-bounded explorer.
// DESIGN.md section 4. This TU is always compiled WITHOUT sanitizer instrumentation.
#include <cds_verif/cdsmc.h>

#include <atomic>
#include <algorithm>
#include <cerrno>
#include <cstdarg>
#include <cstdio>
#include <cstdlib>
#include <cstring>
#include <malloc.h>
#include <ctime>
#include <map>
#include <set>
#include <unordered_map>
#include <unordered_set>
#include <fstream>
#include <sstream>

#include <pthread.h>
#include <unistd.h>
#include <signal.h>
#include <sys/mman.h>
#include <sys/syscall.h>
#include <sys/wait.h>
#include <sys/stat.h>
#include <sys/personality.h>
#include <linux/futex.h>

using namespace cds_verif;

namespace {

// ---------------------------------------------------------------------------------------------
// scheduler state (one execution at a time per process; accessed by one thread at a time)
// ---------------------------------------------------------------------------------------------
enum TState : uint8_t { T_NONE, T_RUNNABLE, T_BLK_MUTEX, T_BLK_CV, T_BLK_CV_TIMED, T_BLK_JOIN, T_BLK_JOINALL,
                        T_BAR_BEGIN, T_BAR_END, T_FINISHED };
enum Reason : uint8_t { R_POINT, R_YIELD, R_BLOCK, R_CHOOSE };
enum Phase : uint8_t { P_OFF, P_SETUP, P_EXPLORE, P_TEARDOWN };

constexpr int MAXT = 12;
constexpr size_t MAXTRACE = 1 << 16;
constexpr size_t MAXDEVS = 192;

struct Thr {
    int id = 0;
    TState st = T_NONE;
    bool worker = false;
    std::atomic<int> go{0};
    pthread_t pt{};
    bool has_pt = false;
    const void* wait_obj = nullptr;
    int join_target = -1;
    bool cv_timed_out = false;
    bool changed_since_report = true;
    bool at_start = false;      // released from the start barrier and no operation performed yet
    uint64_t* pending_inv = nullptr;         // invocation stamp to be taken when this thread executes its next step (stamp_inv)
    void (*pending_fn)( void* ) = nullptr;   // asynchronous handler to run on this participant (signal delivery, 4.6)
    void* pending_arg = nullptr;
    int   pending_from = -1;
    unsigned run_steps = 0;     // consecutive explored steps since this thread was last switched in
    std::function<void()> fn;
};

struct Dev { uint32_t point; uint32_t value; };
struct TraceRec { uint32_t point; uint8_t reason; uint8_t cur; uint16_t mask; uint8_t selfcost; uint8_t n; };

struct HbState;     // happens-before tracker, below

struct Sched {
    Thr thr[MAXT];
    int nthr = 0;
    int cur = 0;
    Phase phase = P_OFF;
    uint32_t pointno = 0;
    uint64_t steps = 0, explore_steps = 0, clock = 0;
    Dev devs[MAXDEVS];
    size_t ndevs = 0, devpos = 0;
    int bound = 0, used = 0;
    TraceRec* trace = nullptr;
    size_t ntrace = 0;
    unsigned horizon = 20000, livelock_limit = 48;
    bool livelock_violation = true;
    unsigned nochange_reports = 0;
    bool verbose = false;
    bool hb_on = false;
    unsigned slice = 300;           // steps a thread may run in the explored window before a forced (free) yield
    int in_handler = 0;             // > 0: an asynchronous handler runs; its operations are not scheduling points
    uint16_t lower[MAXT] = {};      // lower[t]: threads that must run before t is picked at a free choice
    bool any_lower = false;
};

Sched S;
pthread_t g_controller_pt;
thread_local Thr* tl_self = nullptr;

// ---------------------------------------------------------------------------------------------
// shared memory between the parent and its worker processes
// ---------------------------------------------------------------------------------------------
struct Slot {
    std::atomic<uint64_t> heartbeat;
    std::atomic<int> state;         // 0 idle, 1 running an execution
    int scenario;
    int bound;
    uint32_t ndevs;
    Dev devs[MAXDEVS];
    int fail_kind;                  // 0 none, 1 violation, 2 engine error
    char signature[128];
    char message[2048];
};

struct ScStat {
    std::atomic<uint64_t> execs, steps, nodes, maxsteps, maxpoints, aux[4];
    std::atomic<int> violated;
    std::atomic<int> bound_done;    // highest bound whose jobs all completed (-1 none)
    std::atomic<uint32_t> jobs_left;
};

struct Shared {
    std::atomic<uint64_t> next_job;
    std::atomic<int> stop;
    std::atomic<uint64_t> execs, steps, nodes;
    Slot slots[64];
};

Shared* g_sh = nullptr;
ScStat* g_sc = nullptr;
int g_slot = -1;
std::vector<cdsmc::Scenario>* g_scen = nullptr;

// ---------------------------------------------------------------------------------------------
// low-level hand-off
// ---------------------------------------------------------------------------------------------
inline long futex( std::atomic<int>* addr, int op, int val )
{
    return syscall( SYS_futex, reinterpret_cast<int*>( addr ), op, val, nullptr, nullptr, 0 );
}

inline void wake( Thr& t )
{
    t.go.store( 1, std::memory_order_release );
    futex( &t.go, FUTEX_WAKE_PRIVATE, 1 );
}

inline void wait_turn( Thr& t )
{
    for ( int i = 0; i < 64; ++i ) {
        if ( t.go.load( std::memory_order_acquire ) == 1 ) goto got;
#if defined(__x86_64__)
        __builtin_ia32_pause();
#endif
    }
    while ( t.go.load( std::memory_order_acquire ) != 1 )
        futex( &t.go, FUTEX_WAIT_PRIVATE, 0 );
got:
    t.go.store( 0, std::memory_order_relaxed );
}

// sequential exploration inside one execution (seqmc): what the harness is doing right now, and a step budget against loops that never end
char g_context[512] = "";
uint64_t g_step_budget = 0;

[[noreturn]] void die( int kind, const char* sig, const char* fmt, ... )
{
    char buf[2048];
    va_list ap; va_start( ap, fmt ); vsnprintf( buf, sizeof buf, fmt, ap ); va_end( ap );
    if ( g_context[0] ) { size_t n = strlen( buf ); snprintf( buf + n, sizeof buf - n, " [while: %s]", g_context ); }
    if ( g_sh && g_slot >= 0 ) {
        Slot& sl = g_sh->slots[g_slot];
        sl.fail_kind = kind;
        snprintf( sl.signature, sizeof sl.signature, "%s", sig );
        snprintf( sl.message, sizeof sl.message, "%s", buf );
    }
    else
        fprintf( stderr, "cdsmc: %s: %s\n", sig, buf );
    fflush( nullptr );
    _exit( kind == 1 ? 3 : 4 );
}

const char* kind_name( uint8_t k )
{
    static const char* n[] = { "load","store","rmw","cas","fence","lock","unlock","trylock","cvwait","notify","spawn","join","exit","backoff","choose","user","barrier" };
    return k < sizeof n / sizeof n[0] ? n[k] : "?";
}

// A value-changing step by the running thread: every *other* thread may now observe something new. The writer's
// own flag is left alone: a loop whose only changes are its own (try_lock/unlock with nothing to do, ...) is still a
// spin as far as the writer is concerned, and continuing it without anybody else moving costs a deviation.
inline void mark_changed()
{
    int me = tl_self ? tl_self->id : -1;
    for ( int i = 0; i < S.nthr; ++i ) if ( i != me ) S.thr[i].changed_since_report = true;
    S.nochange_reports = 0;
}

// Fair scheduling of voluntary yields (after Musuvathi/Qadeer, "Fair stateless model checking"): a thread that
// reports a back-off gets lower priority than every thread enabled at that moment until that thread has run a step.
// Free choices (yield, block, exit) are made among the enabled threads that have no enabled thread above them, so
// the explorer cannot starve a lock holder by bouncing between two spinners forever.
inline void ran( int u )
{
    if ( !S.any_lower ) return;
    uint16_t bit = uint16_t( 1u << u ), any = 0;
    for ( int i = 0; i < S.nthr; ++i ) { S.lower[i] &= uint16_t( ~bit ); any |= S.lower[i]; }
    S.any_lower = any != 0;
}

inline uint16_t fair_mask( uint16_t enabled )
{
    if ( !S.any_lower ) return enabled;
    uint16_t m = 0;
    for ( int i = 0; i < S.nthr; ++i )
        if (( enabled & ( 1u << i )) && ( S.lower[i] & enabled ) == 0 ) m |= uint16_t( 1u << i );
    return m ? m : enabled;
}

inline uint16_t runnable_mask()
{
    uint16_t m = 0;
    for ( int i = 0; i < S.nthr; ++i )
        if ( S.thr[i].st == T_RUNNABLE ) m |= uint16_t( 1u << i );
    return m;
}

bool all_workers_in( TState a )
{
    for ( int i = 0; i < S.nthr; ++i )
        if ( S.thr[i].worker && S.thr[i].st != a && S.thr[i].st != T_FINISHED ) return false;
    return true;
}

// nobody runnable: let time pass / release barriers / detect deadlock. Returns true if someone became runnable.
bool resolve_idle()
{
    // timed condition waits time out
    for ( int i = 0; i < S.nthr; ++i ) {
        if ( S.thr[i].st == T_BLK_CV_TIMED ) {
            S.thr[i].st = T_RUNNABLE;
            S.thr[i].cv_timed_out = true;
            return true;
        }
    }
    return false;
}

void describe_threads( char* buf, size_t n )
{
    size_t o = 0;
    for ( int i = 0; i < S.nthr && o < n; ++i )
        o += snprintf( buf + o, n - o, " t%d:%d", i, int( S.thr[i].st ));
}

// options in canonical order; returns count
int build_options( Reason r, int me, uint16_t mask, int selfcost, unsigned n, uint32_t* opt, uint8_t* cost )
{
    int k = 0;
    switch ( r ) {
    case R_POINT:
        opt[k] = me; cost[k++] = 0;
        for ( int i = 0; i < MAXT; ++i )
            if ( i != me && ( mask & ( 1u << i ))) { opt[k] = i; cost[k++] = 1; }
        break;
    case R_YIELD:
        for ( int d = 1; d < MAXT; ++d ) {
            int i = ( me + d ) % MAXT;
            if ( i != me && ( mask & ( 1u << i ))) { opt[k] = i; cost[k++] = 0; }
        }
        opt[k] = me; cost[k++] = uint8_t( selfcost );
        break;
    case R_BLOCK:
        for ( int i = 0; i < MAXT; ++i )
            if ( mask & ( 1u << i )) { opt[k] = i; cost[k++] = 0; }
        break;
    case R_CHOOSE:
        for ( unsigned i = 0; i < n; ++i ) { opt[k] = i; cost[k++] = 0; }
        break;
    }
    return k;
}

void switch_to( int next )
{
    Thr* me = tl_self;
    if ( next == me->id ) return;
    S.cur = next;
    bool fin = me->st == T_FINISHED;
    wake( S.thr[next] );
    if ( !fin ) {
        wait_turn( *me );
        me->run_steps = 0;
        // woken only to run a handler on behalf of another participant: run it atomically, hand the baton straight back
        while ( me->pending_fn ) {
            void (*fn)( void* ) = me->pending_fn; void* arg = me->pending_arg; int from = me->pending_from;
            me->pending_fn = nullptr;
            ++S.in_handler;
            fn( arg );
            --S.in_handler;
            S.cur = from;
            wake( S.thr[from] );
            wait_turn( *me );
        }
    }
}

// blocks the harness reported as released in this execution (region_freed): an instrumented access inside one is a violation
struct FreedRegion { uintptr_t lo, hi; const char* what; };
constexpr unsigned MAXFREED = 256;
FreedRegion g_freed[MAXFREED];
unsigned g_nfreed = 0;

inline void flush_inv( Thr* me )
{
    if ( me && me->pending_inv ) { *me->pending_inv = ++S.clock; me->pending_inv = nullptr; }
}

unsigned decide_impl( Reason r, unsigned n );

// every scheduling decision goes through here; when it returns the calling thread is about to execute its next step, which is
// the moment a lazily stamped invocation is recorded (see stamp_inv)
unsigned decide( Reason r, unsigned n = 0 )
{
    unsigned v = decide_impl( r, n );
    flush_inv( tl_self );
    return v;
}

// the heart: pick who runs next (or an environment value)
unsigned decide_impl( Reason r, unsigned n )
{
    Thr* me = tl_self;
    uint16_t mask = runnable_mask();

    if ( S.phase != P_EXPLORE ) {
        // no branching: default policy only
        if ( r == R_CHOOSE ) return 0;
        if ( r == R_POINT ) return me->id;
        int next = -1;
        if ( r == R_YIELD ) {
            for ( int d = 1; d <= MAXT; ++d ) {
                int i = ( me->id + d ) % MAXT;
                if ( mask & ( 1u << i )) { next = i; break; }
            }
        }
        else {
            while ( mask == 0 ) {
                if ( !resolve_idle()) {
                    char b[256]; describe_threads( b, sizeof b );
                    die( S.livelock_violation ? 1 : 2, "deadlock", "deadlock outside the explored window (phase %d):%s", int( S.phase ), b );
                }
                mask = runnable_mask();
            }
            for ( int i = 0; i < MAXT; ++i ) if ( mask & ( 1u << i )) { next = i; break; }
        }
        switch_to( next );
        return unsigned( next );
    }

    ++S.pointno;
    if ( r == R_BLOCK ) {
        while ( mask == 0 ) {
            if ( !resolve_idle()) {
                char b[256]; describe_threads( b, sizeof b );
                die( S.livelock_violation ? 1 : 2, "deadlock", "deadlock: no thread enabled at point %u:%s", S.pointno, b );
            }
            mask = runnable_mask();
        }
    }

    int selfcost = 0;
    if ( r == R_YIELD ) {
        selfcost = me->changed_since_report ? 0 : 1;
        uint16_t others = uint16_t( mask & ~( 1u << me->id ));
        if ( others ) { S.lower[me->id] |= others; S.any_lower = true; }
        mask = uint16_t( fair_mask( mask ) | ( 1u << me->id ));
    }
    else if ( r == R_BLOCK )
        mask = fair_mask( mask );

    bool has_dev = S.devpos < S.ndevs;
    if ( has_dev && S.devs[S.devpos].point < S.pointno )
        die( 2, "nondeterminism", "replay passed point %u without reaching it (now %u)", S.devs[S.devpos].point, S.pointno );
    bool dev_here = has_dev && S.devs[S.devpos].point == S.pointno;
    int remaining = S.bound - S.used;

    // a thread that has not performed any operation since the start barrier: preempting it now is the same
    // interleaving as having started another thread (explored at the start choice at no higher cost)
    bool at_start = me->at_start;
    if ( r == R_POINT ) me->at_start = false;
    // fast path: a plain point with no budget and no deviation scheduled here
    if ( r == R_POINT && !dev_here && ( at_start || remaining <= 0 || ( mask & ~( 1u << me->id )) == 0 || has_dev )) {
        ran( me->id );
        return me->id;
    }

    uint32_t opt[MAXT + 2]; uint8_t cost[MAXT + 2];
    uint32_t optbuf[64]; uint8_t costbuf[64];
    uint32_t* o = opt; uint8_t* c = cost;
    if ( r == R_CHOOSE && n > MAXT ) { o = optbuf; c = costbuf; if ( n > 64 ) n = 64; }
    int k = build_options( r, me->id, mask, selfcost, n, o, c );

    unsigned chosen = o[0];
    if ( dev_here ) {
        int found = -1;
        for ( int i = 0; i < k; ++i ) if ( o[i] == S.devs[S.devpos].value ) { found = i; break; }
        if ( found < 0 )
            die( 2, "nondeterminism", "replay: value %u not among the %d options at point %u (reason %d)", S.devs[S.devpos].value, k, S.pointno, int( r ));
        chosen = o[found];
        S.used += c[found];
        ++S.devpos;
    }
    else if ( !has_dev && k > 1 ) {
        // past the replayed prefix: record the node so that the explorer can branch here
        bool affordable = false;
        for ( int i = 1; i < k; ++i ) if ( c[i] <= remaining ) { affordable = true; break; }
        if ( affordable ) {
            if ( S.ntrace >= MAXTRACE ) die( 2, "trace-overflow", "more than %zu branchable points in one execution", MAXTRACE );
            TraceRec& t = S.trace[S.ntrace++];
            t.point = S.pointno; t.reason = r; t.cur = uint8_t( me->id ); t.mask = mask;
            t.selfcost = uint8_t( selfcost ); t.n = uint8_t( n );
        }
    }

    if ( S.verbose && r != R_POINT )
        fprintf( stderr, "    [p%u t%d %s -> %u]\n", S.pointno, me->id, r == R_YIELD ? "yield" : r == R_BLOCK ? "block" : "choose", chosen );
    if ( r == R_CHOOSE ) return chosen;
    if ( r == R_POINT ) ran( int( chosen ));     // the chosen thread executes its pending operation now
    if ( S.verbose && r == R_POINT && int( chosen ) != me->id )
        fprintf( stderr, "    [p%u t%d preempted -> t%u]\n", S.pointno, me->id, chosen );
    switch_to( int( chosen ));
    return chosen;
}

// ---------------------------------------------------------------------------------------------
// happens-before tracker (DESIGN 7.6)
// ---------------------------------------------------------------------------------------------
struct VC { uint32_t c[MAXT]; };
inline void vc_join( VC& a, VC const& b ) { for ( int i = 0; i < MAXT; ++i ) if ( b.c[i] > a.c[i] ) a.c[i] = b.c[i]; }
inline bool vc_leq_at( VC const& a, int t, uint32_t v ) { return v <= a.c[t]; }

struct HbLoc { VC rel; bool has = false; };
struct HbPayload { int wt = -1; uint32_t wclk = 0; const char* wwhat = ""; VC reads; bool any_read = false; };
struct HbAll {
    VC thr[MAXT];
    VC acq_pending[MAXT];       // joined at the next acquire fence (relaxed loads)
    VC rel_fence[MAXT];         // clock at the last release fence
    bool has_rel_fence[MAXT];
    VC sc;                      // seq_cst fences
    std::unordered_map<const void*, HbLoc> loc;
    std::unordered_map<const void*, HbPayload> pay;
    void reset()
    {
        memset( thr, 0, sizeof thr ); memset( acq_pending, 0, sizeof acq_pending );
        memset( rel_fence, 0, sizeof rel_fence ); memset( has_rel_fence, 0, sizeof has_rel_fence );
        memset( &sc, 0, sizeof sc );
        loc.clear(); pay.clear();
        for ( int i = 0; i < MAXT; ++i ) thr[i].c[i] = 1;
    }
};
HbAll* g_hb = nullptr;

void hb_sync_edge( int from, int to )   // scheduler-level synchronisation (spawn, join, mutex hand-over handled by callers)
{
    if ( !S.hb_on ) return;
    vc_join( g_hb->thr[to], g_hb->thr[from] );
    g_hb->thr[from].c[from]++;
}

void hb_atomic( const void* addr, Kind k, int mo, bool wrote )
{
    HbAll& H = *g_hb;
    int t = tl_self->id;
    bool acq = mo == MO_ACQUIRE || mo == MO_ACQ_REL || mo == MO_SEQ_CST || mo == MO_CONSUME;
    bool rel = mo == MO_RELEASE || mo == MO_ACQ_REL || mo == MO_SEQ_CST;
    if ( k == K_FENCE ) {
        if ( acq ) { vc_join( H.thr[t], H.acq_pending[t] ); }
        if ( rel ) { H.rel_fence[t] = H.thr[t]; H.has_rel_fence[t] = true; }
        if ( mo == MO_SEQ_CST ) { vc_join( H.thr[t], H.sc ); vc_join( H.sc, H.thr[t] ); }
        H.thr[t].c[t]++;
        return;
    }
    HbLoc& L = H.loc[addr];
    bool reads = ( k == K_LOAD || k == K_RMW || k == K_CAS );
    if ( reads && L.has ) {
        if ( acq ) vc_join( H.thr[t], L.rel );
        else vc_join( H.acq_pending[t], L.rel );
    }
    if ( wrote ) {
        bool is_rmw = ( k == K_RMW || k == K_CAS );
        VC nv; memset( &nv, 0, sizeof nv );
        bool has = false;
        if ( rel ) { nv = H.thr[t]; has = true; }
        else if ( H.has_rel_fence[t] ) { nv = H.rel_fence[t]; has = true; }
        if ( is_rmw && L.has ) { vc_join( nv, L.rel ); has = true; }   // release sequence continues through RMWs
        L.rel = nv; L.has = has;
        H.thr[t].c[t]++;
    }
}

} // anonymous namespace

// ---------------------------------------------------------------------------------------------
// cds_verif API
// ---------------------------------------------------------------------------------------------
namespace cds_verif {

bool active() noexcept
{
    return tl_self != nullptr && S.phase != P_OFF;
}

int self_id() noexcept
{
    return tl_self ? tl_self->id : -1;
}

uint64_t stamp() noexcept
{
    flush_inv( tl_self );
    return ++S.clock;
}

void region_freed( const void* p, size_t n, const char* what ) noexcept
{
    if ( !tl_self || S.phase == P_OFF || !p || !n ) return;
    if ( g_nfreed >= MAXFREED ) die( 2, "too-many-freed-regions", "more than %u released blocks in one execution", MAXFREED );
    g_freed[g_nfreed].lo = uintptr_t( p ); g_freed[g_nfreed].hi = uintptr_t( p ) + n; g_freed[g_nfreed].what = what;
    ++g_nfreed;
}

void regions_reset() noexcept { g_nfreed = 0; }
void set_context( const char* what ) noexcept { snprintf( g_context, sizeof g_context, "%s", what ? what : "" ); }
void set_step_budget( uint64_t n ) noexcept { g_step_budget = n; }

void stamp_inv( uint64_t* slot ) noexcept
{
    Thr* me = tl_self;
    if ( !me || S.phase != P_EXPLORE || S.in_handler ) { *slot = ++S.clock; return; }
    flush_inv( me );
    *slot = 0; me->pending_inv = slot;
}

void point( const void* addr, Kind k ) noexcept
{
    Thr* me = tl_self;
    if ( !me || S.phase == P_OFF ) return;
    ++S.steps;
    if ( g_step_budget && --g_step_budget == 0 )
        die( 1, "no-progress", "step budget exhausted: t%d is still running at %s %p (a loop that does not terminate)", me->id, kind_name( k ), addr );
    if ( g_nfreed && addr ) {
        uintptr_t a = uintptr_t( addr );
        for ( unsigned i = 0; i < g_nfreed; ++i )
            if ( a >= g_freed[i].lo && a < g_freed[i].hi )
                die( 1, "use-after-free", "use after free: t%d performs %s at %p, inside the block [%p, +%zu) that was released (%s)", me->id, kind_name( k ), addr,
                     (void*) g_freed[i].lo, size_t( g_freed[i].hi - g_freed[i].lo ), g_freed[i].what );
    }
    if ( S.phase != P_EXPLORE || S.in_handler ) return;
    if ( ++S.explore_steps > S.horizon )
        die( 2, "horizon", "step horizon %u hit by t%d at %s %p", S.horizon, me->id, kind_name( k ), addr );
    if ( S.verbose )
        fprintf( stderr, "  t%d %-7s %p\n", me->id, kind_name( k ), addr );
    // time slice: a thread that has run this many steps without blocking, yielding or finishing is treated as if it had reported a
    // back-off (a fair OS scheduler would have pre-empted it). Retry loops that wait for another thread's progress without calling a
    // back-off (lazy-list validation, bucket initialisation, ...) would otherwise never let that thread run.
    if ( ++me->run_steps > S.slice && ( runnable_mask() & ~( 1u << me->id ))) {
        me->run_steps = 0;
        if ( !me->changed_since_report && ++S.nochange_reports > S.livelock_limit ) {
            char b[256]; describe_threads( b, sizeof b );
            die( S.livelock_violation ? 1 : 2, "livelock", "livelock: t%d keeps running (%u time slices) and nobody changes any value:%s", me->id, S.nochange_reports, b );
        }
        // the whole slice ran without anybody else moving: going on alone repeats what was just seen and costs a deviation
        me->changed_since_report = false;
        decide( R_YIELD );
        return;
    }
    decide( R_POINT );
}

void after_op( const void* addr, Kind k, int mo, bool wrote, bool changed ) noexcept
{
    if ( changed ) mark_changed();
    if ( S.hb_on && tl_self ) hb_atomic( addr, k, mo, wrote );
}

void backoff_report() noexcept
{
    Thr* me = tl_self;
    if ( !me || S.phase == P_OFF ) return;
    ++S.steps;
    if ( S.phase == P_EXPLORE && ++S.explore_steps > S.horizon )
        die( 2, "horizon", "step horizon %u hit by t%d in back-off", S.horizon, me->id );
    if ( !me->changed_since_report ) {
        if ( ++S.nochange_reports > S.livelock_limit ) {
            char b[256]; describe_threads( b, sizeof b );
            die( S.livelock_violation ? 1 : 2, "livelock", "livelock: %u consecutive back-off iterations with no value-changing step:%s", S.nochange_reports, b );
        }
    }
    decide( R_YIELD );
    me->changed_since_report = false;
}

unsigned choose( unsigned n ) noexcept
{
    Thr* me = tl_self;
    if ( !me || S.phase != P_EXPLORE || n <= 1 ) return 0;
    return decide( R_CHOOSE, n );
}

void fail_now( const char* what ) noexcept
{
    const char* colon = strchr( what, ':' );
    char sig[128];
    size_t n = colon ? size_t( colon - what ) : strlen( what );
    if ( n >= sizeof sig ) n = sizeof sig - 1;
    memcpy( sig, what, n ); sig[n] = 0;
    die( 1, sig, "%s", what );
}

int participant_of( unsigned long pthread_id ) noexcept
{
    if ( S.phase == P_OFF ) return -1;
    if ( pthread_id == (unsigned long) g_controller_pt ) return 0;
    for ( int i = 1; i < S.nthr; ++i ) if ( S.thr[i].has_pt && (unsigned long) S.thr[i].pt == pthread_id ) return i;
    return -1;
}

// Runs fn(arg) on participant 'target' right now, atomically (no scheduling points inside), then returns here.
void run_on( int target, void (*fn)( void* ), void* arg ) noexcept
{
    Thr* me = tl_self;
    if ( !me || target < 0 || target >= S.nthr ) return;
    if ( target == me->id ) { ++S.in_handler; fn( arg ); --S.in_handler; return; }
    Thr& t = S.thr[target];
    if ( t.st == T_FINISHED || t.st == T_NONE ) return;      // the thread is gone: the signal is lost, as in real life
    t.pending_fn = fn; t.pending_arg = arg; t.pending_from = me->id;
    S.cur = target;
    wake( t );
    wait_turn( *me );
    S.cur = me->id;
}

void fail_sig( const char* signature, const char* message ) noexcept
{
    die( 1, signature, "%s", message );
}

void explore_begin() noexcept
{
    Thr* me = tl_self;
    if ( !me || S.phase == P_OFF ) return;
    me->st = T_BAR_BEGIN;
    if ( all_workers_in( T_BAR_BEGIN )) {
        S.phase = P_EXPLORE;
        for ( int i = 0; i < S.nthr; ++i ) if ( S.thr[i].st == T_BAR_BEGIN ) { S.thr[i].st = T_RUNNABLE; S.thr[i].at_start = true; }
        mark_changed();
        // who starts is a free choice
        decide( R_BLOCK );
    }
    else
        decide( R_BLOCK );
}

void explore_end() noexcept
{
    Thr* me = tl_self;
    if ( !me || S.phase == P_OFF ) return;
    me->st = T_BAR_END;
    if ( all_workers_in( T_BAR_END )) {
        // keep background threads running (still explored) until they block, then tear down
        S.phase = P_TEARDOWN;
        for ( int i = 0; i < S.nthr; ++i ) if ( S.thr[i].st == T_BAR_END ) S.thr[i].st = T_RUNNABLE;
        decide( R_POINT );
    }
    else
        decide( R_BLOCK );
}

void hb_access( const void* addr, bool is_write, const char* what ) noexcept
{
    if ( !S.hb_on || !tl_self || S.phase == P_OFF ) return;
    HbAll& H = *g_hb;
    int t = tl_self->id;
    HbPayload& p = H.pay[addr];
    char buf[512];
    // Only the hand-off direction is an oracle: a READ of a payload must happen after the last WRITE of it
    // (producer -> consumer through the container). Write-after-read / write-after-write orderings (a node's
    // destruction by the reclaiming thread after the last reader) belong to the reclamation schemes under a memory
    // model this technique does not explore (DESIGN 8), so they are recorded but not judged.
    if ( !is_write && p.wt >= 0 && p.wt != t && !vc_leq_at( H.thr[t], p.wt, p.wclk )) {
        snprintf( buf, sizeof buf, "payload-race: %s of payload %p by t%d is not ordered after %s by t%d (no happens-before through the container)",
            what, addr, t, p.wwhat, p.wt );
        fail_now( buf );
    }
    if ( is_write ) {
        p.wt = t; p.wclk = H.thr[t].c[t]; p.wwhat = what;
        memset( &p.reads, 0, sizeof p.reads ); p.any_read = false;
    }
    else {
        p.reads.c[t] = H.thr[t].c[t]; p.any_read = true;
    }
}

void hb_forget( const void* addr ) noexcept
{
    if ( S.hb_on && g_hb ) g_hb->pay.erase( addr );
}

namespace detail {

void mutex_lock( mutex_state& m, bool recursive ) noexcept
{
    Thr* me = tl_self;
    point( &m, K_LOCK );
    for ( ;; ) {
        if ( m.owner == 0 ) { m.owner = me->id + 1; m.depth = 1; break; }
        if ( m.owner == me->id + 1 && recursive ) { ++m.depth; break; }
        me->st = T_BLK_MUTEX; me->wait_obj = &m;
        decide( R_BLOCK );
    }
    if ( S.hb_on ) hb_atomic( &m, K_RMW, MO_ACQ_REL, true );
}

bool mutex_try_lock( mutex_state& m, bool recursive ) noexcept
{
    Thr* me = tl_self;
    point( &m, K_TRYLOCK );
    if ( m.owner == 0 ) { m.owner = me->id + 1; m.depth = 1; mark_changed(); if ( S.hb_on ) hb_atomic( &m, K_RMW, MO_ACQ_REL, true ); return true; }
    if ( m.owner == me->id + 1 && recursive ) { ++m.depth; return true; }
    return false;
}

void mutex_unlock( mutex_state& m ) noexcept
{
    Thr* me = tl_self;
    point( &m, K_UNLOCK );
    if ( m.owner != me->id + 1 )
        die( 1, "unlock-by-non-owner", "mutex %p unlocked by t%d but owned by t%d", (void*) &m, me->id, m.owner - 1 );
    if ( --m.depth == 0 ) {
        if ( S.hb_on ) hb_atomic( &m, K_RMW, MO_ACQ_REL, true );
        m.owner = 0;
        for ( int i = 0; i < S.nthr; ++i )
            if ( S.thr[i].st == T_BLK_MUTEX && S.thr[i].wait_obj == &m ) S.thr[i].st = T_RUNNABLE;
        mark_changed();
    }
}

bool cv_wait( cv_state& cv, mutex_state& m, bool timed ) noexcept
{
    Thr* me = tl_self;
    point( &cv, K_CVWAIT );
    // release the mutex (held once: std::unique_lock)
    if ( m.owner != me->id + 1 ) die( 2, "cv-wait-without-lock", "condition wait by t%d without owning the mutex", me->id );
    int depth = m.depth;
    m.depth = 0; m.owner = 0;
    if ( S.hb_on ) hb_atomic( &m, K_RMW, MO_ACQ_REL, true );
    for ( int i = 0; i < S.nthr; ++i )
        if ( S.thr[i].st == T_BLK_MUTEX && S.thr[i].wait_obj == &m ) S.thr[i].st = T_RUNNABLE;
    mark_changed();
    me->st = timed ? T_BLK_CV_TIMED : T_BLK_CV; me->wait_obj = &cv; me->cv_timed_out = false;
    decide( R_BLOCK );
    bool timed_out = me->cv_timed_out;
    if ( S.hb_on && !timed_out ) hb_atomic( &cv, K_LOAD, MO_ACQUIRE, false );
    // re-acquire
    for ( ;; ) {
        if ( m.owner == 0 ) { m.owner = me->id + 1; m.depth = depth; break; }
        me->st = T_BLK_MUTEX; me->wait_obj = &m;
        decide( R_BLOCK );
    }
    if ( S.hb_on ) hb_atomic( &m, K_RMW, MO_ACQ_REL, true );
    return !timed_out;
}

void cv_notify( cv_state& cv, bool all ) noexcept
{
    point( &cv, K_NOTIFY );
    if ( S.hb_on ) hb_atomic( &cv, K_STORE, MO_RELEASE, true );
    bool any = false;
    for ( int i = 0; i < S.nthr; ++i ) {
        if (( S.thr[i].st == T_BLK_CV || S.thr[i].st == T_BLK_CV_TIMED ) && S.thr[i].wait_obj == &cv ) {
            S.thr[i].st = T_RUNNABLE; any = true;
            if ( !all ) break;
        }
    }
    if ( any ) mark_changed();
}

} // namespace detail
} // namespace cds_verif

// ---------------------------------------------------------------------------------------------
// participants
// ---------------------------------------------------------------------------------------------
namespace {

void finish_self()
{
    Thr* me = tl_self;
    if ( !me ) return;
    me->st = T_FINISHED;
    // wake joiners
    for ( int i = 0; i < S.nthr; ++i ) {
        Thr& t = S.thr[i];
        if ( t.st == T_BLK_JOIN && t.join_target == me->id ) t.st = T_RUNNABLE;
    }
    bool all = true;
    for ( int i = 0; i < S.nthr; ++i ) if ( S.thr[i].worker && S.thr[i].st != T_FINISHED ) all = false;
    if ( all && S.thr[0].st == T_BLK_JOINALL ) S.thr[0].st = T_RUNNABLE;
    // a worker that ends inside the explored window may complete a barrier for the others
    if ( me->worker && S.phase == P_SETUP && all_workers_in( T_BAR_BEGIN )) {
        bool any = false;
        for ( int i = 0; i < S.nthr; ++i ) if ( S.thr[i].st == T_BAR_BEGIN ) { S.thr[i].st = T_RUNNABLE; any = true; }
        if ( any ) S.phase = P_EXPLORE;
    }
    else if ( me->worker && S.phase == P_EXPLORE && all_workers_in( T_BAR_END )) {
        bool any = false;
        for ( int i = 0; i < S.nthr; ++i ) if ( S.thr[i].st == T_BAR_END ) { S.thr[i].st = T_RUNNABLE; any = true; }
        if ( any ) S.phase = P_TEARDOWN;
    }
    mark_changed();
    if ( S.hb_on ) {
        // exit synchronises with whoever joins; approximate by publishing to everybody who is blocked on us (controller joins all)
        vc_join( g_hb->thr[0], g_hb->thr[me->id] );
    }
    tl_self = me;   // still needed by decide
    decide( R_BLOCK );
    tl_self = nullptr;
}

// Participants are persistent pool threads: creating and destroying kernel threads for every execution does not
// scale in this sandbox (measured: 121 us per 3 threads in one process, 4.3 ms with 16 processes doing the same).
// A pool thread runs one task per execution and then waits for the next; whatever a real thread exit would do
// (libcds detach, flat-combining record clean-up) is done explicitly by the harness body instead.
void* thread_main( void* p )
{
    Thr* me = static_cast<Thr*>( p );
    for ( ;; ) {
        wait_turn( *me );
        tl_self = me;
        me->fn();
        me->fn = nullptr;
        finish_self();
    }
    return nullptr;
}

int new_participant( std::function<void()> fn, bool worker )
{
    if ( S.nthr >= MAXT ) die( 2, "too-many-threads", "more than %d participants", MAXT );
    int id = S.nthr++;
    Thr& t = S.thr[id];
    t.id = id; t.st = T_RUNNABLE; t.worker = worker;
    t.wait_obj = nullptr; t.join_target = -1; t.cv_timed_out = false; t.changed_since_report = true; t.at_start = false; t.run_steps = 0;
    t.fn = std::move( fn );
    if ( !t.has_pt ) {
        t.go.store( 0 );
        pthread_attr_t a; pthread_attr_init( &a );
        pthread_attr_setstacksize( &a, 4 << 20 );
        int rc = pthread_create( &t.pt, &a, thread_main, &t );
        pthread_attr_destroy( &a );
        if ( rc ) die( 2, "pthread_create", "pthread_create failed: %d", rc );
        t.has_pt = true;
    }
    return id;
}

} // namespace

namespace cds_verif { namespace detail {

int thread_spawn( std::function<void()> fn ) noexcept
{
    point( nullptr, K_SPAWN );
    int me = tl_self->id;
    int id = new_participant( std::move( fn ), false );
    if ( S.hb_on ) hb_sync_edge( me, id );
    return id;
}

void thread_join( int id ) noexcept
{
    Thr* me = tl_self;
    point( nullptr, K_JOIN );
    while ( S.thr[id].st != T_FINISHED ) {
        me->st = T_BLK_JOIN; me->join_target = id;
        decide( R_BLOCK );
    }
    if ( S.hb_on ) vc_join( g_hb->thr[me->id], g_hb->thr[id] );
}

}} // namespace cds_verif::detail

// ---------------------------------------------------------------------------------------------
// explorer
// ---------------------------------------------------------------------------------------------
namespace {

struct ExecOut {
    std::vector<TraceRec> trace;
    uint64_t steps = 0, explore_steps = 0;
    uint32_t points = 0;
    int used = 0;
    cdsmc::Result res;
};

struct Config {
    std::string tier = "quick";
    int jobs = 16;
    int bound_override = -1;
    double deadline = 0;        // seconds, 0 = none
    std::string out;
    std::string replay;
    std::string filter;
    std::string replaydir = ".";
    bool list = false;
    bool verbose = false;
    bool hb = false;
    int stripes = 0;
    int max_violations = 8;
};
Config g_cfg;

void execute( cdsmc::Scenario const& sc, std::vector<Dev> const& devs, int bound, ExecOut& out )
{
    // reset
    S.nthr = 0; S.cur = 0; S.pointno = 0; S.steps = 0; S.explore_steps = 0; S.clock = 0;
    g_nfreed = 0; g_context[0] = 0; g_step_budget = 0;
    memset( S.lower, 0, sizeof S.lower ); S.any_lower = false;
    S.ndevs = devs.size(); S.devpos = 0;
    if ( devs.size() > MAXDEVS ) die( 2, "too-many-deviations", "%zu deviations", devs.size());
    for ( size_t i = 0; i < devs.size(); ++i ) S.devs[i] = devs[i];
    S.bound = bound; S.used = 0; S.ntrace = 0;
    S.horizon = sc.horizon; S.livelock_limit = sc.livelock_limit; S.livelock_violation = sc.livelock_is_violation;
    S.nochange_reports = 0;
    S.hb_on = g_cfg.hb;
    if ( S.hb_on ) { if ( !g_hb ) g_hb = new HbAll; g_hb->reset(); }

    if ( g_sh && g_slot >= 0 ) {
        Slot& sl = g_sh->slots[g_slot];
        sl.ndevs = uint32_t( devs.size());
        for ( size_t i = 0; i < devs.size(); ++i ) sl.devs[i] = devs[i];
        sl.bound = bound;
        sl.state.store( 1, std::memory_order_release );
        sl.heartbeat.fetch_add( 1, std::memory_order_relaxed );
    }

    std::unique_ptr<cdsmc::Run> run = sc.make();
    int n = run->nthreads();

    // controller = participant 0
    Thr& c = S.thr[0];
    c.id = 0; c.st = T_RUNNABLE; c.worker = false; c.go.store( 0 ); c.changed_since_report = true;
    S.nthr = 1;
    tl_self = &c;
    g_controller_pt = pthread_self();
    S.in_handler = 0;
    S.phase = P_SETUP;

    run->setup();

    cdsmc::Run* r = run.get();
    for ( int t = 0; t < n; ++t ) {
        new_participant( [r, t]() {
            r->prologue( t );
            explore_begin();
            r->thread( t );
            explore_end();
            r->epilogue( t );
        }, true );
        if ( S.hb_on ) hb_sync_edge( 0, S.nthr - 1 );
    }
    // wait for all workers
    c.st = T_BLK_JOINALL;
    decide( R_BLOCK );
    if ( S.phase == P_EXPLORE ) S.phase = P_TEARDOWN;   // all workers ended inside the window

    run->teardown();

    // background threads must have been joined by teardown; if any is left, that is a harness bug
    for ( int i = 1; i < S.nthr; ++i ) {
        if ( S.thr[i].st != T_FINISHED )
            die( 2, "leftover-thread", "participant %d still alive after teardown (state %d)", i, int( S.thr[i].st ));
    }
    if ( S.devpos != S.ndevs )
        die( 2, "nondeterminism", "replay: execution ended at point %u before deviation %zu (point %u)", S.pointno, S.devpos, S.devs[S.devpos].point );

    S.phase = P_OFF;
    tl_self = nullptr;

    out.steps = S.steps; out.explore_steps = S.explore_steps; out.points = S.pointno; out.used = S.used;
    out.trace.assign( S.trace, S.trace + S.ntrace );
    out.res = cdsmc::Result();
    run->check( out.res );
    run.reset();
    if ( g_sh && g_slot >= 0 ) g_sh->slots[g_slot].state.store( 0, std::memory_order_release );
}

struct JobAcc {
    std::unordered_set<uint64_t> outcomes, nontrivial;
    std::string first_sample;
    uint64_t split_counter = 0;     // children seen at the split depth, in DFS order (the same in every stripe)
    int split_depth = 0;            // 0: root children are dealt to the stripes; 1: grandchildren (bounds >= 3: much better balance)
};

FILE* g_outcomes_file = nullptr;

void flush_job( int sidx, JobAcc& acc )
{
    if ( !g_outcomes_file ) return;
    for ( uint64_t h : acc.outcomes ) {
        uint32_t s = uint32_t( sidx ); uint8_t nt = acc.nontrivial.count( h ) ? 1 : 0;
        fwrite( &s, 4, 1, g_outcomes_file ); fwrite( &h, 8, 1, g_outcomes_file ); fwrite( &nt, 1, 1, g_outcomes_file );
    }
    fflush( g_outcomes_file );
}

std::string devs_to_string( std::vector<Dev> const& d )
{
    std::string s;
    char b[40];
    for ( auto const& x : d ) { snprintf( b, sizeof b, "%s%u:%u", s.empty() ? "" : " ", x.point, x.value ); s += b; }
    return s;
}

void dfs( int sidx, cdsmc::Scenario const& sc, std::vector<Dev>& devs, int used, int bound, int depth, int stripe, int nstripes,
          JobAcc& acc, FILE* samples )
{
    if ( g_sh->stop.load( std::memory_order_relaxed )) return;
    if ( g_sc[sidx].violated.load( std::memory_order_relaxed )) return;
    ExecOut x;
    execute( sc, devs, bound, x );
    if ( x.used != used )
        die( 2, "nondeterminism", "cost of the replayed prefix is %d, expected %d", x.used, used );
    {
        // self-check (CDSMC_CHECK_DET=1): run every schedule a second time and compare what the scheduler saw
        static int check_det = getenv( "CDSMC_CHECK_DET" ) ? atoi( getenv( "CDSMC_CHECK_DET" )) : 0;
        if ( check_det ) {
            // shift the heap layout between the two runs: behaviour must not depend on addresses
            static std::vector<void*> junk; junk.push_back( malloc( size_t( 24 + ( junk.size() * 40 ) % 700 ))); if ( junk.size() > 64 ) { for ( void* j : junk ) free( j ); junk.clear(); }
            ExecOut y; execute( sc, devs, bound, y );
            bool same = y.used == x.used && y.points == x.points && y.trace.size() == x.trace.size() && y.explore_steps == x.explore_steps;
            for ( size_t i = 0; same && i < x.trace.size(); ++i )
                same = x.trace[i].point == y.trace[i].point && x.trace[i].reason == y.trace[i].reason && x.trace[i].mask == y.trace[i].mask && x.trace[i].selfcost == y.trace[i].selfcost && x.trace[i].cur == y.trace[i].cur;
            if ( !same ) {
                fprintf( stderr, "NONDET: scenario %s schedule [%s]: first run used=%d points=%u steps=%llu trace=%zu; second run used=%d points=%u steps=%llu trace=%zu\n", sc.id.c_str(), devs_to_string( devs ).c_str(),
                    x.used, x.points, (unsigned long long) x.explore_steps, x.trace.size(), y.used, y.points, (unsigned long long) y.explore_steps, y.trace.size());
                for ( size_t i = 0; i < x.trace.size() && i < y.trace.size(); ++i )
                    if ( x.trace[i].point != y.trace[i].point || x.trace[i].mask != y.trace[i].mask || x.trace[i].selfcost != y.trace[i].selfcost || x.trace[i].reason != y.trace[i].reason ) {
                        fprintf( stderr, "  first difference at trace record %zu: point %u/%u reason %d/%d cur %d/%d mask %x/%x selfcost %d/%d\n", i, x.trace[i].point, y.trace[i].point, x.trace[i].reason, y.trace[i].reason,
                            x.trace[i].cur, y.trace[i].cur, x.trace[i].mask, y.trace[i].mask, x.trace[i].selfcost, y.trace[i].selfcost );
                        break;
                    }
                die( 2, "nondeterminism", "two runs of the same schedule differ (CDSMC_CHECK_DET)" );
            }
        }
    }
    {
        static long trace_long = getenv( "CDSMC_TRACE_LONG" ) ? atol( getenv( "CDSMC_TRACE_LONG" )) : 0;
        if ( trace_long > 0 && long( x.explore_steps ) > trace_long )
            fprintf( stderr, "LONG execution: %llu explored steps, scenario %s, schedule: %s\n", (unsigned long long) x.explore_steps, sc.id.c_str(), devs_to_string( devs ).c_str());
    }

    bool count = depth > acc.split_depth || stripe == 0;      // nodes above the split are executed by every stripe, counted once
    if ( count ) {
        ScStat& st = g_sc[sidx];
        st.execs.fetch_add( 1, std::memory_order_relaxed );
        st.steps.fetch_add( x.steps, std::memory_order_relaxed );
        st.nodes.fetch_add( x.trace.size() + 1, std::memory_order_relaxed );
        uint64_t m = st.maxsteps.load( std::memory_order_relaxed );
        while ( x.explore_steps > m && !st.maxsteps.compare_exchange_weak( m, x.explore_steps )) {}
        m = st.maxpoints.load( std::memory_order_relaxed );
        while ( x.points > m && !st.maxpoints.compare_exchange_weak( m, x.points )) {}
        for ( int i = 0; i < 4; ++i ) if ( x.res.aux[i] ) st.aux[i].fetch_add( x.res.aux[i], std::memory_order_relaxed );
        if ( acc.outcomes.insert( x.res.outcome_hash ).second && samples && acc.outcomes.size() <= 2 && !x.res.description.empty()) {
            fprintf( samples, "%d\t%s\t%s\n", sidx, devs_to_string( devs ).c_str(), x.res.description.c_str());
            fflush( samples );
        }
        if ( x.res.nontrivial ) acc.nontrivial.insert( x.res.outcome_hash );
    }
    if ( x.res.failed ) {
        std::string m = x.res.message;
        if ( !x.res.description.empty()) m += " | history: " + x.res.description;
        die( 1, x.res.signature.c_str(), "%s", m.c_str());
    }

    uint32_t last_point = devs.empty() ? 0 : devs.back().point;
    int remaining = bound - used;
    size_t child = 0;
    for ( TraceRec const& t : x.trace ) {
        if ( t.point <= last_point ) continue;
        uint32_t opt[64]; uint8_t cost[64];
        int k = build_options( Reason( t.reason ), t.cur, t.mask, t.selfcost, t.n, opt, cost );
        for ( int i = 1; i < k; ++i ) {
            if ( cost[i] > remaining ) continue;
            size_t me = child++;
            (void) me;
            if ( depth == acc.split_depth && int( acc.split_counter++ % uint64_t( nstripes )) != stripe ) continue;
            devs.push_back( Dev{ t.point, opt[i] } );
            dfs( sidx, sc, devs, used + cost[i], bound, depth + 1, stripe, nstripes, acc, samples );
            devs.pop_back();
            if ( g_sh->stop.load( std::memory_order_relaxed )) return;
        }
    }
}

int scenario_bound( cdsmc::Scenario const& sc, cdsmc::Options const& opt )
{
    if ( g_cfg.bound_override >= 0 ) return g_cfg.bound_override;
    if ( g_cfg.tier == "thorough" )
        return sc.bound_thorough >= 0 ? sc.bound_thorough : opt.default_bound_thorough;
    return sc.bound_quick >= 0 ? sc.bound_quick : opt.default_bound_quick;
}

double now_s()
{
    timespec ts; clock_gettime( CLOCK_MONOTONIC, &ts );
    return ts.tv_sec + ts.tv_nsec * 1e-9;
}

std::string json_escape( std::string const& s )
{
    std::string o;
    for ( unsigned char c : s ) {
        if ( c == '"' || c == '\\' ) { o += '\\'; o += char( c ); }
        else if ( c == '\n' ) o += "\\n";
        else if ( c == '\t' ) o += "\\t";
        else if ( c < 0x20 ) { char b[8]; snprintf( b, sizeof b, "\\u%04x", c ); o += b; }
        else o += char( c );
    }
    return o;
}

struct Violation {
    int scenario; int bound; std::vector<Dev> devs; std::string signature, message; int kind; std::string replay_path;
};

void write_replay( std::string const& path, const char* property, cdsmc::Scenario const& sc, Violation const& v )
{
    FILE* f = fopen( path.c_str(), "w" );
    if ( !f ) return;
    fprintf( f, "property %s\nscenario %s\nbound %d\nhb %d\ndevs %s\nsignature %s\nmessage %s\n", property, sc.id.c_str(), v.bound,
        g_cfg.hb ? 1 : 0, devs_to_string( v.devs ).c_str(), v.signature.c_str(), v.message.c_str());
    fclose( f );
}

int do_replay( std::vector<cdsmc::Scenario>& scs, cdsmc::Options const& opt )
{
    std::ifstream in( g_cfg.replay );
    if ( !in ) { fprintf( stderr, "cannot open %s\n", g_cfg.replay.c_str()); return 2; }
    std::string line, scen; int bound = 0; std::vector<Dev> devs; int hb = 0;
    while ( std::getline( in, line )) {
        std::istringstream is( line ); std::string key; is >> key;
        if ( key == "scenario" ) { is >> std::ws; std::getline( is, scen ); }
        else if ( key == "bound" ) is >> bound;
        else if ( key == "hb" ) is >> hb;
        else if ( key == "devs" ) {
            std::string tok;
            while ( is >> tok ) { Dev d; if ( sscanf( tok.c_str(), "%u:%u", &d.point, &d.value ) == 2 ) devs.push_back( d ); }
        }
    }
    g_cfg.hb = hb != 0;
    for ( size_t i = 0; i < scs.size(); ++i ) {
        if ( scs[i].id != scen ) continue;
        // minimal shared state so that die() and dfs bookkeeping work
        g_sh = static_cast<Shared*>( mmap( nullptr, sizeof( Shared ), PROT_READ | PROT_WRITE, MAP_SHARED | MAP_ANONYMOUS, -1, 0 ));
        g_slot = 0;
        S.verbose = g_cfg.verbose;
        pid_t pid = fork();
        if ( pid == 0 ) {
            ExecOut x;
            execute( scs[i], devs, bound, x );
            printf( "replay %s: %llu steps, %u points, history: %s\n", scen.c_str(), (unsigned long long) x.steps, x.points, x.res.description.c_str());
            if ( x.res.failed ) die( 1, x.res.signature.c_str(), "%s", x.res.message.c_str());
            fflush( nullptr );
            _exit( 0 );
        }
        int st = 0; waitpid( pid, &st, 0 );
        Slot& sl = g_sh->slots[0];
        if ( WIFEXITED( st ) && WEXITSTATUS( st ) == 0 ) { printf( "replay: no violation\n" ); return 0; }
        if ( WIFEXITED( st ) && WEXITSTATUS( st ) == 3 ) {
            printf( "replay: signature=%s\n%s\nVIOLATION property=%s replay=%s\n", sl.signature, sl.message, opt.property, g_cfg.replay.c_str());
            return 1;
        }
        if ( WIFEXITED( st ) && WEXITSTATUS( st ) == 4 ) { printf( "replay: engine error %s: %s\n", sl.signature, sl.message ); return 2; }
        printf( "replay: signature=crash\nworker died with status 0x%x (sanitizer report or fatal signal, see stderr)\nVIOLATION property=%s replay=%s\n", st, opt.property, g_cfg.replay.c_str());
        return 1;
    }
    fprintf( stderr, "scenario '%s' not found\n", scen.c_str());
    return 2;
}

} // namespace

namespace cdsmc {

int main_run( int argc, char** argv, std::vector<Scenario>& all, Options const& opt )
{
    // every heap block starts with the same bytes, whatever lived at that address before (see atomic.h, store())
    mallopt( M_PERTURB, 0xff );     // allocation fill = ~0xff = 0x00, release fill = 0xff

    // address-space randomisation off: heap/stack addresses are then the same in every worker and every run
    if ( !getenv( "CDSMC_NO_REEXEC" )) {
        int pers = personality( 0xffffffff );
        if ( pers != -1 && !( pers & ADDR_NO_RANDOMIZE )) {
            if ( personality( pers | ADDR_NO_RANDOMIZE ) != -1 ) {
                setenv( "CDSMC_NO_REEXEC", "1", 1 );
                execv( "/proc/self/exe", argv );
            }
        }
    }

    for ( int i = 1; i < argc; ++i ) {
        std::string a = argv[i];
        auto next = [&]() -> std::string { return i + 1 < argc ? argv[++i] : ""; };
        if ( a == "--tier" ) g_cfg.tier = next();
        else if ( a == "--jobs" ) g_cfg.jobs = atoi( next().c_str());
        else if ( a == "--bound" ) g_cfg.bound_override = atoi( next().c_str());
        else if ( a == "--deadline" ) g_cfg.deadline = atof( next().c_str());
        else if ( a == "--out" ) g_cfg.out = next();
        else if ( a == "--replay" ) g_cfg.replay = next();
        else if ( a == "--filter" ) g_cfg.filter = next();
        else if ( a == "--replaydir" ) g_cfg.replaydir = next();
        else if ( a == "--stripes" ) g_cfg.stripes = atoi( next().c_str());
        else if ( a == "--list" ) g_cfg.list = true;
        else if ( a == "--property" ) next();    // consumed by the harness (vh::take_property)
        else if ( a == "--script" ) next();      // harness-specific configuration selector
        else if ( a == "--hb" ) g_cfg.hb = true;
        else if ( a == "-v" ) g_cfg.verbose = true;
        else { fprintf( stderr, "unknown argument %s\n", a.c_str()); return 2; }
    }
    if ( g_cfg.jobs < 1 ) g_cfg.jobs = 1;
    if ( g_cfg.jobs > 64 ) g_cfg.jobs = 64;

    S.trace = static_cast<TraceRec*>( malloc( sizeof( TraceRec ) * MAXTRACE ));

    if ( !g_cfg.replay.empty()) return do_replay( all, opt );

    std::vector<Scenario> scs;
    bool thorough = g_cfg.tier == "thorough";
    for ( auto& s : all ) {
        if ( !g_cfg.filter.empty() && s.id.find( g_cfg.filter ) == std::string::npos ) continue;
        if ( s.tier == 1 && !thorough ) continue;
        scs.push_back( s );
    }
    if ( g_cfg.list ) {
        for ( auto& s : scs ) printf( "%s\tbound=%d\n", s.id.c_str(), scenario_bound( s, opt ));
        return 0;
    }
    if ( scs.empty()) { fprintf( stderr, "no scenarios\n" ); return 2; }
    g_scen = &scs;

    size_t ns = scs.size();
    g_sh = static_cast<Shared*>( mmap( nullptr, sizeof( Shared ), PROT_READ | PROT_WRITE, MAP_SHARED | MAP_ANONYMOUS, -1, 0 ));
    g_sc = static_cast<ScStat*>( mmap( nullptr, sizeof( ScStat ) * ns, PROT_READ | PROT_WRITE, MAP_SHARED | MAP_ANONYMOUS, -1, 0 ));
    for ( size_t i = 0; i < ns; ++i ) g_sc[i].bound_done.store( -1 );

    int nstripes = g_cfg.stripes > 0 ? g_cfg.stripes : 2 * g_cfg.jobs;   // root children are dealt round-robin to the stripes
    int maxbound = 0;
    std::vector<int> sb( ns );
    for ( size_t i = 0; i < ns; ++i ) { sb[i] = scenario_bound( scs[i], opt ); maxbound = std::max( maxbound, sb[i] ); }

    double t0 = now_s();
    char tmpl[] = "/dev/shm/cdsmc.XXXXXX";
    std::string tmpdir;
    if ( char* d = mkdtemp( tmpl )) tmpdir = d; else { tmpdir = g_cfg.replaydir; }

    std::vector<Violation> violations;
    std::vector<Violation> engine_errors;
    bool deadline_hit = false;
    int bound_completed = -1;
    std::vector<std::unordered_map<uint64_t, uint8_t>> outcomes( ns );
    std::map<int, std::vector<std::string>> samples;

    for ( int c = 0; c <= maxbound && !deadline_hit; ++c ) {
        // job list for this bound
        struct Job { int s, stripe; };
        std::vector<Job> jobs;
        for ( size_t i = 0; i < ns; ++i ) {
            if ( sb[i] < c || g_sc[i].violated.load()) continue;
            // iterative bounding re-explores lower bounds; per-scenario statistics are those of the highest bound run
            g_sc[i].execs.store( 0 ); g_sc[i].steps.store( 0 ); g_sc[i].nodes.store( 0 );
            for ( int k = 0; k < 4; ++k ) g_sc[i].aux[k].store( 0 );
            outcomes[i].clear();
            int nst = c == 0 ? 1 : nstripes;
            g_sc[i].jobs_left.store( uint32_t( nst ));
            for ( int k = 0; k < nst; ++k ) jobs.push_back( Job{ int( i ), k } );
        }
        if ( jobs.empty()) break;
        // interleave stripes of different scenarios so that big scenarios spread over workers
        std::stable_sort( jobs.begin(), jobs.end(), []( Job const& a, Job const& b ) { return a.stripe < b.stripe; } );
        g_sh->next_job.store( 0 );

        auto spawn_worker = [&]( int slot ) -> pid_t {
            fflush( nullptr );
            pid_t pid = fork();
            if ( pid != 0 ) return pid;
            g_slot = slot;
            std::string of = tmpdir + "/outcomes." + std::to_string( slot );
            g_outcomes_file = fopen( of.c_str(), "ab" );
            std::string sf = tmpdir + "/samples." + std::to_string( slot );
            FILE* samples_f = fopen( sf.c_str(), "a" );
            for ( ;; ) {
                uint64_t j = g_sh->next_job.fetch_add( 1 );
                if ( j >= jobs.size() || g_sh->stop.load()) break;
                Job jb = jobs[j];
                Slot& sl = g_sh->slots[slot];
                sl.scenario = jb.s; sl.fail_kind = 0;
                JobAcc acc;
                acc.split_depth = c >= 3 ? 1 : 0;
                std::vector<Dev> devs;
                int nst = c == 0 ? 1 : nstripes;
                dfs( jb.s, scs[jb.s], devs, 0, c, 0, jb.stripe, nst, acc, jb.stripe == 0 ? samples_f : nullptr );
                flush_job( jb.s, acc );
                if ( !g_sh->stop.load() && !g_sc[jb.s].violated.load()) {
                    if ( g_sc[jb.s].jobs_left.fetch_sub( 1 ) == 1 ) g_sc[jb.s].bound_done.store( c );
                }
            }
            fflush( nullptr );
            _exit( 0 );
        };

        std::map<pid_t, int> live;
        int nw = std::min<int>( g_cfg.jobs, int( jobs.size()));
        for ( int w = 0; w < nw; ++w ) live[spawn_worker( w )] = w;

        std::vector<uint64_t> last_hb( 64, 0 ); std::vector<double> last_change( 64, now_s());
        while ( !live.empty()) {
            int st = 0;
            pid_t pid = waitpid( -1, &st, WNOHANG );
            if ( pid == 0 ) {
                usleep( 20000 );
                double t = now_s();
                if ( g_cfg.deadline > 0 && t - t0 > g_cfg.deadline && !g_sh->stop.load()) { g_sh->stop.store( 1 ); deadline_hit = true; }
                // watchdog: a worker whose execution makes no progress for 120 s is killed and reported as an engine error
                for ( auto& kv : live ) {
                    Slot& sl = g_sh->slots[kv.second];
                    uint64_t hb = sl.heartbeat.load();
                    if ( hb != last_hb[kv.second] ) { last_hb[kv.second] = hb; last_change[kv.second] = t; }
                    else if ( sl.state.load() == 1 && t - last_change[kv.second] > 120 ) { kill( kv.first, SIGKILL ); last_change[kv.second] = t; }
                }
                continue;
            }
            if ( pid < 0 ) break;
            auto it = live.find( pid );
            if ( it == live.end()) continue;
            int slot = it->second;
            live.erase( it );
            Slot& sl = g_sh->slots[slot];
            bool normal = WIFEXITED( st ) && WEXITSTATUS( st ) == 0;
            if ( !normal ) {
                Violation v;
                v.scenario = sl.scenario; v.bound = sl.bound;
                v.devs.assign( sl.devs, sl.devs + std::min<uint32_t>( sl.ndevs, MAXDEVS ));
                if ( WIFEXITED( st ) && ( WEXITSTATUS( st ) == 3 || WEXITSTATUS( st ) == 4 )) {
                    v.kind = sl.fail_kind; v.signature = sl.signature; v.message = sl.message;
                }
                else if ( WIFSIGNALED( st ) && WTERMSIG( st ) == SIGKILL ) {
                    v.kind = 2; v.signature = "hang"; v.message = "execution made no progress for 120 s (killed by the watchdog)";
                }
                else {
                    // sanitizer abort or fatal signal inside libcds: memory safety is a precondition of every property
                    v.kind = 1; v.signature = "crash";
                    char b[200]; snprintf( b, sizeof b, "worker died (wait status 0x%x: %s %d) while running this schedule", st,
                        WIFSIGNALED( st ) ? "signal" : "exit", WIFSIGNALED( st ) ? WTERMSIG( st ) : WEXITSTATUS( st ));
                    v.message = b;
                }
                if ( v.kind == 1 ) {
                    g_sc[v.scenario].violated.store( 1 );
                    if ( int( violations.size()) < 10000 ) violations.push_back( v );
                }
                else {
                    g_sc[v.scenario].violated.store( 2 );
                    engine_errors.push_back( v );
                }
                sl.state.store( 0 ); sl.fail_kind = 0;
                if ( g_sh->next_job.load() < jobs.size() && !g_sh->stop.load())
                    live[spawn_worker( slot )] = slot;
            }
        }

        // merge outcome and sample files
        for ( int w = 0; w < 64; ++w ) {
            std::string of = tmpdir + "/outcomes." + std::to_string( w );
            if ( FILE* f = fopen( of.c_str(), "rb" )) {
                uint32_t s; uint64_t h; uint8_t nt;
                while ( fread( &s, 4, 1, f ) == 1 && fread( &h, 8, 1, f ) == 1 && fread( &nt, 1, 1, f ) == 1 )
                    if ( s < ns ) outcomes[s][h] |= nt;
                fclose( f ); unlink( of.c_str());
            }
            std::string sf = tmpdir + "/samples." + std::to_string( w );
            std::ifstream in( sf );
            std::string line;
            while ( std::getline( in, line )) {
                size_t p = line.find( '\t' );
                if ( p == std::string::npos ) continue;
                int s = atoi( line.substr( 0, p ).c_str());
                if ( samples[s].size() < 2 ) samples[s].push_back( line.substr( p + 1 ));
            }
            in.close(); unlink( sf.c_str());
        }
        if ( !deadline_hit ) bound_completed = c;
        if ( !engine_errors.empty()) break;
    }
    rmdir( tmpdir.c_str());

    // write replay files
    mkdir( g_cfg.replaydir.c_str(), 0755 );
    int vn = 0;
    for ( auto& v : violations ) {
        char name[64]; snprintf( name, sizeof name, "/%s-%d.replay", opt.property, vn++ );
        v.replay_path = g_cfg.replaydir + name;
        write_replay( v.replay_path, opt.property, scs[v.scenario], v );
    }
    for ( auto& v : engine_errors ) {
        char name[64]; snprintf( name, sizeof name, "/%s-engine-%d.replay", opt.property, vn++ );
        v.replay_path = g_cfg.replaydir + name;
        write_replay( v.replay_path, opt.property, scs[v.scenario], v );
    }

    // totals
    uint64_t execs = 0, steps = 0, nodes = 0, distinct = 0, nontrivial = 0, aux[4] = {0,0,0,0};
    int min_bound_done = 1 << 20; size_t single_outcome = 0;
    for ( size_t i = 0; i < ns; ++i ) {
        execs += g_sc[i].execs.load(); steps += g_sc[i].steps.load(); nodes += g_sc[i].nodes.load();
        for ( int k = 0; k < 4; ++k ) aux[k] += g_sc[i].aux[k].load();
        distinct += outcomes[i].size();
        for ( auto& kv : outcomes[i] ) if ( kv.second ) ++nontrivial;
        if ( outcomes[i].size() <= 1 ) ++single_outcome;
        if ( !g_sc[i].violated.load()) min_bound_done = std::min( min_bound_done, g_sc[i].bound_done.load());
    }
    if ( min_bound_done == 1 << 20 ) min_bound_done = -1;
    double wall = now_s() - t0;

    std::ostringstream js;
    js << "{\n \"property\": \"" << opt.property << "\",\n \"tier\": \"" << g_cfg.tier << "\",\n"
       << " \"scenarios\": " << ns << ",\n \"executions\": " << execs << ",\n \"steps\": " << steps << ",\n \"nodes\": " << nodes << ",\n"
       << " \"distinct_outcomes\": " << distinct << ",\n \"distinct_nontrivial\": " << nontrivial << ",\n"
       << " \"single_outcome_scenarios\": " << single_outcome << ",\n"
       << " \"aux\": [" << aux[0] << "," << aux[1] << "," << aux[2] << "," << aux[3] << "],\n"
       << " \"max_bound\": " << maxbound << ",\n \"bound_completed\": " << bound_completed << ",\n \"min_scenario_bound_completed\": " << min_bound_done << ",\n"
       << " \"deadline_hit\": " << ( deadline_hit ? "true" : "false" ) << ",\n \"hb\": " << ( g_cfg.hb ? "true" : "false" ) << ",\n \"jobs\": " << g_cfg.jobs << ",\n \"wall_s\": " << wall << ",\n";
    js << " \"per_scenario\": [";
    for ( size_t i = 0; i < ns; ++i ) {
        if ( i ) js << ",";
        js << "\n  {\"id\": \"" << json_escape( scs[i].id ) << "\", \"bound\": " << sb[i] << ", \"bound_done\": " << g_sc[i].bound_done.load()
           << ", \"executions\": " << g_sc[i].execs.load() << ", \"max_steps\": " << g_sc[i].maxsteps.load() << ", \"max_points\": " << g_sc[i].maxpoints.load()
           << ", \"outcomes\": " << outcomes[i].size() << ", \"status\": " << g_sc[i].violated.load() << "}";
    }
    js << "\n ],\n \"samples\": [";
    {
        bool first = true; int cnt = 0;
        for ( auto& kv : samples ) {
            for ( auto& s : kv.second ) {
                if ( cnt >= 12 ) break;
                size_t p = s.find( '\t' );
                js << ( first ? "" : "," ) << "\n  {\"scenario\": \"" << json_escape( scs[kv.first].id ) << "\", \"schedule\": \""
                   << json_escape( s.substr( 0, p )) << "\", \"history\": \"" << json_escape( p == std::string::npos ? "" : s.substr( p + 1 )) << "\"}";
                first = false; ++cnt;
            }
        }
    }
    js << "\n ],\n \"violations\": [";
    for ( size_t i = 0; i < violations.size(); ++i ) {
        auto& v = violations[i];
        js << ( i ? "," : "" ) << "\n  {\"scenario\": \"" << json_escape( scs[v.scenario].id ) << "\", \"bound\": " << v.bound << ", \"signature\": \""
           << json_escape( v.signature ) << "\", \"message\": \"" << json_escape( v.message ) << "\", \"schedule\": \"" << devs_to_string( v.devs )
           << "\", \"replay\": \"" << json_escape( v.replay_path ) << "\"}";
    }
    js << "\n ],\n \"engine_errors\": [";
    for ( size_t i = 0; i < engine_errors.size(); ++i ) {
        auto& v = engine_errors[i];
        js << ( i ? "," : "" ) << "\n  {\"scenario\": \"" << json_escape( scs[v.scenario].id ) << "\", \"bound\": " << v.bound << ", \"signature\": \""
           << json_escape( v.signature ) << "\", \"message\": \"" << json_escape( v.message ) << "\", \"schedule\": \"" << devs_to_string( v.devs )
           << "\", \"replay\": \"" << json_escape( v.replay_path ) << "\"}";
    }
    js << "\n ]\n}\n";

    if ( !g_cfg.out.empty()) {
        std::ofstream o( g_cfg.out ); o << js.str();
    }
    else
        fputs( js.str().c_str(), stdout );

    fprintf( stderr, "cdsmc[%s %s]: %zu scenarios, %llu executions, %llu steps, %llu distinct outcomes (%llu non-trivial), bound completed %d/%d%s, %zu violations, %zu engine errors, %.1fs\n",
        opt.property, g_cfg.tier.c_str(), ns, (unsigned long long) execs, (unsigned long long) steps, (unsigned long long) distinct,
        (unsigned long long) nontrivial, bound_completed, maxbound, deadline_hit ? " (deadline)" : "", violations.size(), engine_errors.size(), wall );
    for ( auto& v : violations )
        fprintf( stderr, "  violation: %s [%s] %s (schedule: %s)\n", scs[v.scenario].id.c_str(), v.signature.c_str(), v.message.c_str(), devs_to_string( v.devs ).c_str());
    for ( auto& v : engine_errors )
        fprintf( stderr, "  ENGINE ERROR: %s [%s] %s (schedule: %s)\n", scs[v.scenario].id.c_str(), v.signature.c_str(), v.message.c_str(), devs_to_string( v.devs ).c_str());

    if ( !engine_errors.empty()) return 2;
    return violations.empty() ? 0 : 1;
}

} // namespace cdsmc
