#!/bin/bash
# dev helper: rebuild libcds objects + a harness (the ./check driver does this with caching)
set -e
cd /verif
mkdir -p build/lib
FL="-std=gnu++14 -O1 -g -DNDEBUG -DKHIZMAX_LIBCDS_VERIF -mcx16 -Icdsmc/include -I/repo"
for f in /repo/src/*.cpp; do g++ $FL -c $f -o build/lib/$(basename $f .cpp).o & done
g++ -std=gnu++14 -O1 -g -Icdsmc/include -c cdsmc/src/cdsmc.cpp -o build/cdsmc.o &
wait
for h in "$@"; do
  g++ $FL -fno-access-control harness/$h.cpp build/cdsmc.o build/lib/*.o -o build/$h -lpthread -latomic &
done
wait
