// C28: Feldman hash addressing distinguishes every pair of distinct hashes (DESIGN.md 9/C28).
// (A) metrics::make for every configuration; (B) injectivity of the path function built from the real metrics and
// the real splitter the container selects; (C) real inserts into cds::container::FeldmanHashSet for instantiable
// configurations with hash sets that share maximal prefixes.
#include <cds/init.h>
#include <cds/gc/hp.h>
#include <cds/container/feldman_hashset_hp.h>
#include <cds/algo/split_bitstring.h>
#include <algorithm>
#include <array>
#include <set>
#include "../enum/enum_common.h"

using namespace venum;
namespace cc = cds::container;
namespace fh = cds::intrusive::feldman_hashset;

namespace {

template <size_t N> struct bytes_hash {
    std::array<uint8_t, N> b;
    bool operator==( bytes_hash const& o ) const { return b == o.b; }
    bool operator<( bytes_hash const& o ) const { return b < o.b; }
};

template <typename H> struct item { H hash; int payload; };
template <typename H> struct get_hash { H const& operator()( item<H> const& i ) const { return i.hash; } };

template <typename H> H from_u64( uint64_t v ) { return H( v ); }
template <> bytes_hash<3> from_u64<bytes_hash<3>>( uint64_t v ) { bytes_hash<3> h; for ( int i = 0; i < 3; ++i ) h.b[i] = uint8_t( v >> ( 8 * i )); return h; }
template <> bytes_hash<2> from_u64<bytes_hash<2>>( uint64_t v ) { bytes_hash<2> h; for ( int i = 0; i < 2; ++i ) h.b[i] = uint8_t( v >> ( 8 * i )); return h; }

// the path an item with this hash follows: slot in the head array, then one slot per array-node level (traverse_data / traverse)
template <typename H, size_t HashSize, class Splitter>
std::vector<uint64_t> path_of( H const& h, fh::details::metrics const& m )
{
    std::vector<uint64_t> p;
    Splitter sp( h );
    p.push_back( uint64_t( sp.cut( unsigned( m.head_node_size_log ))));
    while ( !sp.eos()) p.push_back( uint64_t( sp.cut( unsigned( m.array_node_size_log ))));
    return p;
}

void metrics_case( Ctx& c )
{
    run_case( c, "metrics/make", "hash sizes 1..20 bytes x head_bits 0..hash_bits+2 x array_bits 0..18", true, [&]( Case& k ) {
        for ( size_t hs = 1; hs <= 20; ++hs ) {
            size_t hb = hs * 8;
            for ( size_t head = 0; head <= hb + 2; ++head ) for ( size_t arr = 0; arr <= 18; ++arr ) {
                fh::details::metrics m = fh::details::metrics::make( head, arr, hs );
                ++k.evaluations;
                std::string in = "hash_size=" + std::to_string( hs ) + " head_bits=" + std::to_string( head ) + " array_bits=" + std::to_string( arr );
                if ( m.head_node_size_log > hb ) { c.violation( k.name, in, "head consumes more bits than the hash has" ); continue; }
                if ( m.array_node_size_log == 0 ) { c.violation( k.name, in, "array node consumes no bits" ); continue; }
                if (( hb - m.head_node_size_log ) % m.array_node_size_log != 0 ) { c.violation( k.name, in, "head + k*array does not consume the hash bits exactly (head_log=" + std::to_string( m.head_node_size_log ) + " array_log=" + std::to_string( m.array_node_size_log ) + ")" ); continue; }
                if ( m.head_node_size_log < 64 && m.head_node_size != ( size_t( 1 ) << m.head_node_size_log )) { c.violation( k.name, in, "head_node_size is not 2^head_node_size_log" ); continue; }
                if ( m.array_node_size != ( size_t( 1 ) << m.array_node_size_log )) { c.violation( k.name, in, "array_node_size is not 2^array_node_size_log" ); continue; }
                // the request is honoured when it is already normalised
                if ( head >= 4 && head <= hb && arr >= 2 && ( hb - head ) % arr == 0 && ( m.head_node_size_log != head || m.array_node_size_log != arr ))
                    { c.violation( k.name, in, "a layout that already consumes all bits exactly was changed" ); continue; }
                if ( m.head_node_size_log != head || m.array_node_size_log != arr ) ++k.nontrivial;
            }
        }
        fh::details::metrics m = fh::details::metrics::make( 5, 3, 2 );
        k.samples.push_back( "make(head=5,array=3,hash_size=2) -> head_log=" + std::to_string( m.head_node_size_log ) + " array_log=" + std::to_string( m.array_node_size_log ));
    } );
}

// all hashes of a 1- or 2-byte type: the path function must be injective (covers every pair of distinct hashes)
template <typename H, size_t HashSize>
void path_all_case( Ctx& c, std::string const& tname )
{
    typedef typename cds::algo::select_splitter<H, HashSize>::type splitter;
    size_t hb = HashSize * 8;
    run_case( c, "path-injective/" + tname, "every configuration head 0.." + std::to_string( hb ) + " x array 0..16 accepted by the splitter x all 2^" + std::to_string( hb ) + " hashes (all pairs, through injectivity)", true, [&]( Case& k ) {
        std::vector<std::pair<size_t, size_t>> cfgs;
        for ( size_t head = 0; head <= hb; ++head ) for ( size_t arr = 0; arr <= 16; ++arr ) cfgs.push_back( { head, arr } );
        std::atomic<uint64_t> ev{ 0 }, nt{ 0 };
        parallel_range( c, cfgs.size(), [&]( uint64_t lo, uint64_t hi, int ) {
            for ( uint64_t ci = lo; ci < hi; ++ci ) {
                fh::details::metrics m = fh::details::metrics::make( cfgs[ci].first, cfgs[ci].second, HashSize );
                if ( !splitter::is_correct( unsigned( m.head_node_size_log )) || !splitter::is_correct( unsigned( m.array_node_size_log ))) continue;   // FeldmanHashSet's constructor asserts this
                std::string in = "head_bits=" + std::to_string( cfgs[ci].first ) + " array_bits=" + std::to_string( cfgs[ci].second );
                std::vector<bool> seen( size_t( 1 ) << hb, false );
                size_t levels = 1 + ( hb - m.head_node_size_log ) / m.array_node_size_log;
                for ( uint64_t v = 0; v < ( uint64_t( 1 ) << hb ); ++v ) {
                    H h = from_u64<H>( v );
                    std::vector<uint64_t> p = path_of<H, HashSize, splitter>( h, m );
                    if ( p.size() != levels ) { c.violation( k.name, in + " hash=" + hex( v ), "path has " + std::to_string( p.size()) + " levels, the layout has " + std::to_string( levels )); break; }
                    // encode the path as one number: injective encoding because each slot is below its node size
                    uint64_t code = 0; unsigned shift = 0; bool bad = false;
                    for ( size_t i = 0; i < p.size(); ++i ) {
                        size_t width = i == 0 ? m.head_node_size_log : m.array_node_size_log;
                        if ( width < 64 && p[i] >= ( uint64_t( 1 ) << width )) bad = true;
                        code |= p[i] << shift; shift += unsigned( width );
                    }
                    if ( bad ) { c.violation( k.name, in + " hash=" + hex( v ), "slot index out of its node" ); break; }
                    if ( code >= seen.size() || seen[code] ) { c.violation( k.name, in + " hash=" + hex( v ), "two distinct hashes follow the same path to the last level" ); break; }
                    seen[code] = true;
                    // equal hashes, same path
                    H h2 = from_u64<H>( v );
                    if ( path_of<H, HashSize, splitter>( h2, m ) != p ) { c.violation( k.name, in + " hash=" + hex( v ), "equal hashes follow different paths" ); break; }
                    ++ev;
                }
                ++nt;
            }
        }, 1 );
        k.evaluations = ev; k.nontrivial = nt;
    } );
}

// wide hashes: pairs that differ in exactly one bit at every position (and so share the longest possible prefixes)
template <typename H, size_t HashSize>
void path_onebit_case( Ctx& c, std::string const& tname )
{
    typedef typename cds::algo::select_splitter<H, HashSize>::type splitter;
    size_t hb = HashSize * 8;
    run_case( c, "path-onebit/" + tname, "configurations head 0..min(hash_bits,40) x array 0..16 accepted by the splitter x 70 base hashes x every single-bit difference", true, [&]( Case& k ) {
        std::vector<uint64_t> bases = { 0, ~uint64_t( 0 ), 0x5555555555555555ull, 0xaaaaaaaaaaaaaaaaull, 0x0123456789abcdefull, 0xfedcba9876543210ull };
        for ( int i = 0; i < 64; ++i ) bases.push_back( uint64_t( 1 ) << i );
        uint64_t mask = hb >= 64 ? ~uint64_t( 0 ) : (( uint64_t( 1 ) << hb ) - 1 );
        for ( size_t head = 0; head <= std::min<size_t>( hb, 40 ); ++head ) for ( size_t arr = 0; arr <= 16; ++arr ) {
            fh::details::metrics m = fh::details::metrics::make( head, arr, HashSize );
            if ( !splitter::is_correct( unsigned( m.head_node_size_log )) || !splitter::is_correct( unsigned( m.array_node_size_log ))) continue;
            std::string in = "head_bits=" + std::to_string( head ) + " array_bits=" + std::to_string( arr );
            for ( uint64_t b : bases ) {
                H h = H( b & mask );
                std::vector<uint64_t> p = path_of<H, HashSize, splitter>( h, m );
                for ( size_t bit = 0; bit < hb; ++bit ) {
                    H g = H(( b & mask ) ^ ( uint64_t( 1 ) << bit ));
                    std::vector<uint64_t> q = path_of<H, HashSize, splitter>( g, m );
                    ++k.evaluations;
                    // level that holds this bit
                    size_t lvl = bit < m.head_node_size_log ? 0 : 1 + ( bit - m.head_node_size_log ) / m.array_node_size_log;
                    bool ok = p.size() == q.size() && lvl < p.size();
                    for ( size_t i = 0; ok && i < p.size(); ++i ) ok = ( i == lvl ) ? ( p[i] != q[i] ) : ( p[i] == q[i] );
                    if ( !ok ) { c.violation( k.name, in + " hash=" + hex( b & mask ) + " bit=" + std::to_string( bit ), "hashes that differ in one bit do not diverge exactly at the level that consumes that bit" ); goto next_cfg; }
                    if ( lvl > 0 ) ++k.nontrivial;
                }
            }
        next_cfg:;
        }
    } );
}

// real inserts
template <typename H, size_t HashSize, class Gen>
void insert_case( Ctx& c, std::string const& tname, std::vector<std::pair<size_t, size_t>> cfgs, Gen gen, std::string const& space )
{
    struct traits: public cc::feldman_hashset::traits { typedef get_hash<H> hash_accessor; typedef cds::atomicity::item_counter item_counter; };
    typedef cc::FeldmanHashSet< cds::gc::HP, item<H>, traits > set_type;
    run_case( c, "insert/" + tname, space, true, [&]( Case& k ) {
        for ( auto cfg : cfgs ) {
            std::vector<uint64_t> hashes = gen();
            std::sort( hashes.begin(), hashes.end()); hashes.erase( std::unique( hashes.begin(), hashes.end()), hashes.end());
            std::string in = "head_bits=" + std::to_string( cfg.first ) + " array_bits=" + std::to_string( cfg.second );
            set_type s( cfg.first, cfg.second );
            size_t n = 0; bool ok = true;
            for ( uint64_t v : hashes ) {
                item<H> it{ H( v ), int( n ) };
                ++k.evaluations;
                if ( !s.insert( it )) { c.violation( k.name, in + " hash=" + hex( v ), "insert of a hash that is not in the set failed (" + std::to_string( n ) + " items present)" ); ok = false; break; }
                ++n;
                if ( s.insert( it )) { c.violation( k.name, in + " hash=" + hex( v ), "second insert of the same hash succeeded" ); ok = false; break; }
            }
            if ( !ok ) continue;
            if ( s.size() != hashes.size()) { c.violation( k.name, in, "size() is " + std::to_string( s.size()) + " after " + std::to_string( hashes.size()) + " successful inserts" ); continue; }
            for ( uint64_t v : hashes ) if ( !s.contains( H( v ))) { c.violation( k.name, in + " hash=" + hex( v ), "inserted hash not found" ); ok = false; break; }
            if ( !ok ) continue;
            for ( uint64_t v : hashes ) if ( !s.erase( H( v ))) { c.violation( k.name, in + " hash=" + hex( v ), "erase of a present hash failed" ); ok = false; break; }
            if ( ok && !s.empty()) c.violation( k.name, in, "not empty after erasing everything" );
            k.nontrivial += hashes.size();
            cds::gc::HP::force_dispose();
        }
    } );
}

std::vector<uint64_t> prefix_sharing( unsigned bits )
{
    // hashes that agree on all low bits and differ only near the top, and vice versa; plus one-bit neighbourhoods
    std::vector<uint64_t> v;
    uint64_t mask = bits >= 64 ? ~uint64_t( 0 ) : (( uint64_t( 1 ) << bits ) - 1 );
    for ( unsigned long long base0 : { 0ull, ~0ull, 0x0123456789abcdefull, 0x5555555555555555ull } ) { uint64_t base = base0;
        v.push_back( base & mask );
        for ( unsigned i = 0; i < bits; ++i ) v.push_back(( base ^ ( uint64_t( 1 ) << i )) & mask );
        for ( unsigned i = 0; i + 1 < bits; ++i ) v.push_back(( base ^ ( uint64_t( 3 ) << i )) & mask );
        for ( uint64_t t = 0; t < 64; ++t ) v.push_back(( base ^ ( t << ( bits - 6 ))) & mask );   // only the top 6 bits differ
    }
    return v;
}

} // namespace

int main( int argc, char** argv )
{
    Ctx c; c.property = "C28";
    parse_args( c, argc, argv );
    std::string rk, ri;
    if ( !c.replay.empty()) { if ( !read_replay( c, rk, ri )) { fprintf( stderr, "bad replay file\n" ); return 2; } c.filter = rk; }

    cds::Initialize();
    {
        cds::gc::HP hp( 16, 2, 64 );
        cds::threading::Manager::attachThread();

        metrics_case( c );
        path_all_case<uint8_t, 1>( c, "uint8" );
        path_all_case<uint16_t, 2>( c, "uint16-number_splitter" );
        path_all_case<bytes_hash<2>, 2>( c, "bytes2-split_bitstring" );
        path_onebit_case<uint32_t, 4>( c, "uint32" );
        path_onebit_case<uint64_t, 8>( c, "uint64" );
        path_onebit_case<int, 4>( c, "int32" );

        std::vector<std::pair<size_t, size_t>> small, mid;
        for ( size_t h = 0; h <= 8; ++h ) for ( size_t a = 0; a <= 8; ++a ) small.push_back( { h, a } );
        for ( size_t h : { 4, 5, 8 } ) for ( size_t a : { 2, 3, 4, 5, 6, 7, 12 } ) mid.push_back( { h, a } );
        insert_case<uint8_t, 1>( c, "uint8-all", small, [] { std::vector<uint64_t> v; for ( uint64_t i = 0; i < 256; ++i ) v.push_back( i ); return v; },
            "head 0..8 x array 0..8, all 256 one-byte hashes inserted into the real FeldmanHashSet" );
        insert_case<uint16_t, 2>( c, "uint16-all", c.thorough() ? small : mid, [] { std::vector<uint64_t> v; for ( uint64_t i = 0; i < 65536; ++i ) v.push_back( i ); return v; },
            "all 65536 two-byte hashes inserted into the real FeldmanHashSet per configuration" );
        insert_case<uint32_t, 4>( c, "uint32-prefix-sharing", small, [] { return prefix_sharing( 32 ); }, "head 0..8 x array 0..8, hashes sharing maximal prefixes (one/two-bit neighbourhoods of 4 bases, top-6-bit variations)" );
        insert_case<uint64_t, 8>( c, "uint64-prefix-sharing", small, [] { return prefix_sharing( 64 ); }, "head 0..8 x array 0..8, hashes sharing maximal prefixes (one/two-bit neighbourhoods of 4 bases, top-6-bit variations)" );

        cds::threading::Manager::detachThread();
    }
    cds::Terminate();

    int rc = finish( c );
    if ( !c.replay.empty()) {
        if ( rc == 1 ) printf( "replay: signature=%s\nVIOLATION property=C28 replay=%s\n", rk.c_str(), c.replay.c_str());
        else printf( "replay: no violation\n" );
    }
    return rc;
}
