// C25: bit-manipulation helpers are correct for every input (DESIGN.md 9/C25) - exhaustive enumeration.
#include <cstdint>
#include <cassert>
#include <memory>
#include <cds/algo/bit_reversal.h>
#include <cds/algo/bitop.h>
#include <cds/algo/int_algo.h>
#include <cds/algo/split_bitstring.h>
#include "enum_common.h"

// the portable fall-back implementations (shadowed by the amd64 assembler ones in a normal build)
namespace generic_bitop {
#   undef CDSLIB_DETAILS_BITOP_GENERIC_H
#   undef cds_bitop_msb32_DEFINED
#   undef cds_bitop_msb32nz_DEFINED
#   undef cds_bitop_msb64_DEFINED
#   undef cds_bitop_msb64nz_DEFINED
#   undef cds_bitop_lsb32_DEFINED
#   undef cds_bitop_lsb32nz_DEFINED
#   undef cds_bitop_lsb64_DEFINED
#   undef cds_bitop_lsb64nz_DEFINED
#   include <cds/details/bitop_generic.h>
}
namespace gen = generic_bitop::cds::bitop::platform;

using namespace venum;

namespace {

uint8_t g_rev8[256];

inline uint32_t ref_rev32( uint32_t x )
{
    return ( uint32_t( g_rev8[x & 0xff] ) << 24 ) | ( uint32_t( g_rev8[( x >> 8 ) & 0xff] ) << 16 ) |
           ( uint32_t( g_rev8[( x >> 16 ) & 0xff] ) << 8 ) | uint32_t( g_rev8[x >> 24] );
}
inline uint64_t ref_rev64( uint64_t x )
{
    return ( uint64_t( ref_rev32( uint32_t( x ))) << 32 ) | ref_rev32( uint32_t( x >> 32 ));
}
// the definition itself, bit by bit (used to build the byte table and to spot-check ref_rev32/64)
template <typename T>
T loop_rev( T x )
{
    T r = 0;
    for ( unsigned i = 0; i < sizeof( T ) * 8; ++i )
        if ( x & ( T( 1 ) << i )) r |= T( 1 ) << ( sizeof( T ) * 8 - 1 - i );
    return r;
}
template <typename T> int loop_msb( T x ) { int r = 0; for ( unsigned i = 0; i < sizeof( T ) * 8; ++i ) if ( x & ( T( 1 ) << i )) r = int( i ) + 1; return r; }
template <typename T> int loop_lsb( T x ) { for ( unsigned i = 0; i < sizeof( T ) * 8; ++i ) if ( x & ( T( 1 ) << i )) return int( i ) + 1; return 0; }
template <typename T> int loop_sbc( T x ) { int r = 0; for ( unsigned i = 0; i < sizeof( T ) * 8; ++i ) if ( x & ( T( 1 ) << i )) ++r; return r; }

// cheap references for the 2^32 sweeps (validated against the loops on a sub-range by case "reference-selfcheck")
inline int fast_msb32( uint32_t x ) { return x ? 32 - __builtin_clz( x ) : 0; }
inline int fast_lsb32( uint32_t x ) { return x ? __builtin_ctz( x ) + 1 : 0; }
inline int fast_msb64( uint64_t x ) { return x ? 64 - __builtin_clzll( x ) : 0; }
inline int fast_lsb64( uint64_t x ) { return x ? __builtin_ctzll( x ) + 1 : 0; }

// the structured 64-bit set (DESIGN 9/C25): <=3 set bits and complements, byte-lane pairs, halves
template <class F>
void for_structured64( F f )
{
    for ( int a = 0; a < 64; ++a ) {
        f( uint64_t( 1 ) << a ); f( ~( uint64_t( 1 ) << a ));
        for ( int b = a + 1; b < 64; ++b ) {
            uint64_t v = ( uint64_t( 1 ) << a ) | ( uint64_t( 1 ) << b );
            f( v ); f( ~v );
            for ( int c = b + 1; c < 64; ++c ) { uint64_t w = v | ( uint64_t( 1 ) << c ); f( w ); f( ~w ); }
        }
    }
    f( 0 ); f( ~uint64_t( 0 )); f( 0x5555555555555555ull ); f( 0xaaaaaaaaaaaaaaaaull ); f( 0x0123456789abcdefull ); f( 0xfedcba9876543210ull );
}
constexpr uint64_t STRUCT64_COUNT = 2 * ( 64 + 64 * 63 / 2 + 64 * 63 * 62 / 6 ) + 6;

template <class Impl>
void rev32_case( Ctx& c, const char* name, Impl impl )
{
    run_case( c, std::string( "rev32/" ) + name, "all 2^32 inputs", true, [&]( Case& k ) {
        std::atomic<uint64_t> nt{ 0 };
        parallel_range( c, uint64_t( 1 ) << 32, [&]( uint64_t lo, uint64_t hi, int ) {
            uint64_t n = 0;
            for ( uint64_t i = lo; i < hi; ++i ) {
                uint32_t x = uint32_t( i );
                uint32_t r = impl( x );
                if ( r != ref_rev32( x ))
                    c.violation( k.name, hex( x ), "reversal is " + hex( r ) + ", definition gives " + hex( ref_rev32( x )));
                else if ( impl( r ) != x )
                    c.violation( k.name, hex( x ), "not an involution" );
                if ( r != x ) ++n;
            }
            nt += n;
        } );
        k.evaluations = uint64_t( 1 ) << 32; k.nontrivial = nt;
        k.samples.push_back( "rev(0x00000001)=" + hex( impl( 1u )) + " rev(0x12345678)=" + hex( impl( 0x12345678u )));
    } );
}

template <class Impl>
void rev64_case( Ctx& c, const char* name, Impl impl )
{
    run_case( c, std::string( "rev64/" ) + name + "/structured", "all words with <=3 set bits and complements; byte-lane pairs x 2^16 contents x {0,ff} fill", true, [&]( Case& k ) {
        uint64_t n = 0, nt = 0;
        auto one = [&]( uint64_t x ) {
            uint64_t r = impl( x );
            ++n; if ( r != x ) ++nt;
            if ( r != ref_rev64( x )) c.violation( k.name, hex( x ), "reversal is " + hex( r ) + ", definition gives " + hex( ref_rev64( x )));
            else if ( impl( r ) != x ) c.violation( k.name, hex( x ), "not an involution" );
        };
        for_structured64( one );
        for ( int a = 0; a < 8; ++a ) for ( int b = a + 1; b < 8; ++b )
            for ( uint64_t fill : { uint64_t( 0 ), ~uint64_t( 0 ) } )
                for ( uint32_t v = 0; v < 65536; ++v ) {
                    uint64_t x = fill;
                    x &= ~(( uint64_t( 0xff ) << ( 8 * a )) | ( uint64_t( 0xff ) << ( 8 * b )));
                    x |= ( uint64_t( v & 0xff ) << ( 8 * a )) | ( uint64_t( v >> 8 ) << ( 8 * b ));
                    one( x );
                }
        k.evaluations = n; k.nontrivial = nt;
        k.samples.push_back( "rev64(1)=" + hex( impl( uint64_t( 1 ))));
    } );
    for ( int half = 0; half < 2; ++half ) {
        // quick: the other half is all-zero for the low-half sweep and all-one for the high-half sweep; thorough: 0, ~0 and a pattern for both
        std::vector<uint64_t> fills;
        if ( c.thorough()) fills = { 0, ~uint64_t( 0 ), 0xa5a5a5a55a5a5a5aull };
        else fills = { half ? ~uint64_t( 0 ) : 0 };
        run_case( c, std::string( "rev64/" ) + name + ( half ? "/high-half" : "/low-half" ),
            "all 2^32 values of one half, the other half in " + std::string( c.thorough() ? "{0, ~0, a5a5a5a5/5a5a5a5a}" : ( half ? "{~0}" : "{0}" )), true, [&]( Case& k ) {
            std::atomic<uint64_t> nt{ 0 };
            for ( uint64_t fill : fills ) {
                parallel_range( c, uint64_t( 1 ) << 32, [&]( uint64_t lo, uint64_t hi, int ) {
                    uint64_t n = 0;
                    for ( uint64_t i = lo; i < hi; ++i ) {
                        uint64_t x = half ? (( i << 32 ) | ( fill & 0xffffffffull )) : ( i | ( fill & 0xffffffff00000000ull ));
                        uint64_t r = impl( x );
                        if ( r != ref_rev64( x )) c.violation( k.name, hex( x ), "reversal is " + hex( r ) + ", definition gives " + hex( ref_rev64( x )));
                        else if ( impl( r ) != x ) c.violation( k.name, hex( x ), "not an involution" );
                        if ( r != x ) ++n;
                    }
                    nt += n;
                } );
                k.evaluations += uint64_t( 1 ) << 32;
            }
            k.nontrivial = nt;
        } );
    }
}

// ---- splitters --------------------------------------------------------------------------------
template <typename T> inline uint64_t low_bits( T src, unsigned off, unsigned cnt )
{
    typedef typename std::make_unsigned<T>::type U;
    uint64_t v = uint64_t( U( src ));
    if ( off >= 64 ) return 0;
    v >>= off;
    return cnt >= 64 ? v : ( v & (( uint64_t( 1 ) << cnt ) - 1 ));
}

std::vector<uint64_t> source_set( unsigned bits )
{
    std::vector<uint64_t> s;
    uint64_t mask = bits >= 64 ? ~uint64_t( 0 ) : (( uint64_t( 1 ) << bits ) - 1 );
#if defined(__SANITIZE_ADDRESS__)
    // the AddressSanitizer unit only looks for reads past the end of the source: the access pattern does not depend on the
    // source bits, so a strided source set is enough there (the plain unit enumerates all sources)
    if ( bits <= 16 ) { for ( uint64_t v = 0; v <= mask; v += ( bits <= 8 ? 1 : 251 )) s.push_back( v ); s.push_back( mask ); return s; }
#else
    if ( bits <= 16 ) { for ( uint64_t v = 0; v <= mask; ++v ) s.push_back( v ); return s; }
#endif
    for ( unsigned a = 0; a < bits; ++a ) {
        s.push_back( uint64_t( 1 ) << a ); s.push_back( mask & ~( uint64_t( 1 ) << a ));
        s.push_back( mask & (( uint64_t( 1 ) << a ) - 1 )); s.push_back( mask & ~(( uint64_t( 1 ) << a ) - 1 ));
    }
    for ( unsigned long long v : { 0ull, ~0ull, 0x5555555555555555ull, 0xaaaaaaaaaaaaaaaaull, 0x0123456789abcdefull,
                         0xfedcba9876543210ull, 0x8000000180000001ull, 0xdeadbeefcafebabeull } ) s.push_back( uint64_t( v ) & mask );
    return s;
}

// enumerates cut-width sequences: all sequences of <= maxlen widths drawn from 'widths' whose sum <= bits, plus uniform ones
template <class F>
void for_sequences( std::vector<unsigned> const& widths, unsigned bits, unsigned maxlen, F f )
{
    std::vector<unsigned> seq;
    std::function<void( unsigned )> rec = [&]( unsigned sum ) {
        f( seq );
        if ( seq.size() >= maxlen ) return;
        for ( unsigned w : widths ) {
            if ( sum + w > bits ) continue;
            seq.push_back( w ); rec( sum + w ); seq.pop_back();
        }
    };
    rec( 0 );
    for ( unsigned w : widths ) {   // uniform sequences of any length
        seq.clear();
        for ( unsigned sum = w; sum <= bits; sum += w ) { seq.push_back( w ); if ( seq.size() > maxlen ) f( seq ); }
    }
}

std::string seq_str( std::vector<unsigned> const& s ) { std::string r; for ( unsigned w : s ) r += ( r.empty() ? "" : "," ) + std::to_string( w ); return r; }

// One splitter run: cut the sequence, then safe_cut the rest (+ overshoot), then safe_cut again at the end.
// Source lives in an exactly-sized heap object so that AddressSanitizer (asan unit) sees any read past its end.
template <class Splitter, typename T>
void splitter_one( Ctx& c, Case& k, T srcv, std::vector<unsigned> const& seq, unsigned maxcut, bool byte_mode )
{
    constexpr unsigned bits = sizeof( T ) * 8;
    std::unique_ptr<T> src( new T( srcv ));
    Splitter sp( *src );
    unsigned off = 0;
    std::string in = hex( uint64_t( typename std::make_unsigned<T>::type( srcv ))) + " widths " + seq_str( seq );
    for ( unsigned w : seq ) {
        if ( sp.eos()) { c.violation( k.name, in, "eos() before the source bits are consumed (offset " + std::to_string( off ) + ")" ); return; }
        uint64_t got = uint64_t( typename std::make_unsigned<typename Splitter::uint_type>::type( sp.cut( w )));
        uint64_t want = low_bits( srcv, off, w );
        if ( got != want ) { c.violation( k.name, in, "cut(" + std::to_string( w ) + ") at offset " + std::to_string( off ) + " returned " + hex( got ) + ", source bits are " + hex( want )); return; }
        off += w;
        if ( sp.bit_offset() != off || sp.rest_count() != bits - off ) { c.violation( k.name, in, "bit_offset/rest_count wrong after offset " + std::to_string( off )); return; }
    }
    // safe_cut: ask for more than the rest -> exactly the rest
    unsigned rest = bits - off;
    unsigned ask = rest + ( byte_mode ? 8 : 3 );
    if ( ask > maxcut ) ask = maxcut;
    if ( rest > 0 && ask >= rest ) {
        uint64_t got = uint64_t( typename std::make_unsigned<typename Splitter::uint_type>::type( sp.safe_cut( ask )));
        uint64_t want = low_bits( srcv, off, rest );
        if ( got != want ) { c.violation( k.name, in, "safe_cut(" + std::to_string( ask ) + ") with " + std::to_string( rest ) + " bits left returned " + hex( got ) + ", the rest is " + hex( want )); return; }
        if ( !sp.eos()) { c.violation( k.name, in, "not eos() after safe_cut consumed the rest" ); return; }
    }
    if ( sp.eos()) {
        if ( sp.safe_cut( byte_mode ? 8 : 5 ) != 0 ) { c.violation( k.name, in, "safe_cut at eos() is not 0" ); return; }
    }
    ++k.evaluations;
    if ( seq.size() >= 2 ) ++k.nontrivial;
}

template <class Splitter, typename T>
void splitter_case( Ctx& c, std::string const& name, std::vector<unsigned> widths, unsigned maxlen, unsigned maxcut, bool byte_mode )
{
    constexpr unsigned bits = sizeof( T ) * 8;
    run_case( c, name, "every sequence of <=" + std::to_string( maxlen ) + " cut widths (plus all uniform sequences) with sum <= " + std::to_string( bits ) +
        " bits x " + ( bits <= 16 ? std::string( "all sources" ) : std::string( "structured sources" )) + ", then safe_cut of the rest and at eos", true, [&]( Case& k ) {
        std::vector<uint64_t> srcs = source_set( bits );
        std::vector<std::vector<unsigned>> seqs;
        for_sequences( widths, bits, maxlen, [&]( std::vector<unsigned> const& s ) { seqs.push_back( s ); } );
        std::atomic<uint64_t> ev{ 0 }, nt{ 0 };
        parallel_range( c, seqs.size(), [&]( uint64_t lo, uint64_t hi, int ) {
            Case local; local.name = k.name;
            for ( uint64_t i = lo; i < hi; ++i )
                for ( uint64_t s : srcs ) splitter_one<Splitter, T>( c, local, T( s ), seqs[i], maxcut, byte_mode );
            ev += local.evaluations; nt += local.nontrivial;
        }, 64 );
        k.evaluations = ev; k.nontrivial = nt;
        k.samples.push_back( std::to_string( seqs.size()) + " sequences x " + std::to_string( srcs.size()) + " sources, e.g. widths " + seq_str( seqs[seqs.size() / 2] ));
    } );
}

std::vector<unsigned> range( unsigned lo, unsigned hi, unsigned step = 1 ) { std::vector<unsigned> v; for ( unsigned i = lo; i <= hi; i += step ) v.push_back( i ); return v; }

} // namespace

int main( int argc, char** argv )
{
    Ctx c; c.property = "C25";
    parse_args( c, argc, argv );
    std::string rk, ri;
    if ( !c.replay.empty()) { if ( !read_replay( c, rk, ri )) { fprintf( stderr, "bad replay file\n" ); return 2; } c.filter = rk; }
    for ( unsigned i = 0; i < 256; ++i ) g_rev8[i] = loop_rev<uint8_t>( uint8_t( i ));

    namespace br = cds::algo::bit_reversal;
    namespace bo = cds::bitop;

    run_case( c, "reference-selfcheck", "fast references vs bit-loop definitions on 2^22 32-bit and the structured 64-bit inputs", true, [&]( Case& k ) {
        for ( uint32_t i = 0; i < ( 1u << 22 ); ++i ) {
            uint32_t x = i * 2654435761u;
            if ( ref_rev32( x ) != loop_rev<uint32_t>( x ) || fast_msb32( x ) != loop_msb<uint32_t>( x ) || fast_lsb32( x ) != loop_lsb<uint32_t>( x ) || __builtin_popcount( x ) != loop_sbc<uint32_t>( x ))
                c.violation( k.name, hex( x ), "harness reference disagrees with the bit-loop definition" );
            ++k.evaluations;
        }
        for_structured64( [&]( uint64_t x ) {
            if ( ref_rev64( x ) != loop_rev<uint64_t>( x ) || fast_msb64( x ) != loop_msb<uint64_t>( x ) || fast_lsb64( x ) != loop_lsb<uint64_t>( x ) || __builtin_popcountll( x ) != loop_sbc<uint64_t>( x ))
                c.violation( k.name, hex( x ), "harness reference disagrees with the bit-loop definition" );
            ++k.evaluations;
        } );
        k.nontrivial = k.evaluations - 1;
    } );

    run_case( c, "byte-helpers", "all 256 byte values", true, [&]( Case& k ) {
        for ( unsigned b = 0; b < 256; ++b ) {
            if ( br::muldiv::muldiv32_byte( uint8_t( b )) != g_rev8[b] ) c.violation( k.name, hex( b ), "muldiv32_byte wrong" );
            if ( br::muldiv::muldiv64_byte( uint8_t( b )) != g_rev8[b] ) c.violation( k.name, hex( b ), "muldiv64_byte wrong" );
            if ( uint8_t( br::lookup()( uint32_t( b )) >> 24 ) != g_rev8[b] ) c.violation( k.name, hex( b ), "lookup table entry wrong" );
            ++k.evaluations; if ( g_rev8[b] != b ) ++k.nontrivial;
        }
        k.samples.push_back( "muldiv32_byte(0x01)=" + hex( br::muldiv::muldiv32_byte( 1 )));
    } );

    rev32_case( c, "swar", []( uint32_t x ) { return br::swar()( x ); } );
    rev32_case( c, "lookup", []( uint32_t x ) { return br::lookup()( x ); } );
    rev32_case( c, "muldiv", []( uint32_t x ) { return br::muldiv()( x ); } );
    rev32_case( c, "muldiv32-static", []( uint32_t x ) { return br::muldiv::muldiv32( x ); } );
    rev32_case( c, "bitop-RBO", []( uint32_t x ) { return bo::RBO( x ); } );
    rev32_case( c, "generic-rbo32", []( uint32_t x ) { return gen::rbo32( x ); } );

    rev64_case( c, "swar", []( uint64_t x ) { return br::swar()( x ); } );
    rev64_case( c, "lookup", []( uint64_t x ) { return br::lookup()( x ); } );
    rev64_case( c, "muldiv", []( uint64_t x ) { return br::muldiv()( x ); } );
    if ( c.thorough()) {
        rev64_case( c, "muldiv32-static", []( uint64_t x ) { return br::muldiv::muldiv32( x ); } );
        rev64_case( c, "bitop-RBO", []( uint64_t x ) { return bo::RBO( x ); } );
    }

    run_case( c, "bitop32", "all 2^32 inputs: MSB LSB MSBnz LSBnz SBC ZBC (amd64 and generic implementations)", true, [&]( Case& k ) {
        std::atomic<uint64_t> nt{ 0 };
        parallel_range( c, uint64_t( 1 ) << 32, [&]( uint64_t lo, uint64_t hi, int ) {
            uint64_t n = 0;
            for ( uint64_t i = lo; i < hi; ++i ) {
                uint32_t x = uint32_t( i );
                int m = fast_msb32( x ), l = fast_lsb32( x ), p = __builtin_popcount( x );
                bool ok = bo::MSB( x ) == m && bo::LSB( x ) == l && bo::SBC( x ) == p && bo::ZBC( x ) == 32 - p
                    && gen::msb32( x ) == m && gen::lsb32( x ) == l && gen::sbc32( x ) == p && gen::zbc32( x ) == 32 - p;
                if ( x ) ok = ok && bo::MSBnz( x ) == m - 1 && bo::LSBnz( x ) == l - 1 && gen::msb32nz( x ) == m - 1 && gen::lsb32nz( x ) == l - 1;
                if ( !ok ) c.violation( k.name, hex( x ), "one of MSB/LSB/MSBnz/LSBnz/SBC/ZBC differs from its definition" );
                if ( m != l ) ++n;
            }
            nt += n;
        } );
        k.evaluations = uint64_t( 1 ) << 32; k.nontrivial = nt;
        k.samples.push_back( "MSB(0x00f0)=" + std::to_string( bo::MSB( uint32_t( 0xf0 ))) + " LSB(0x00f0)=" + std::to_string( bo::LSB( uint32_t( 0xf0 ))));
    } );

    run_case( c, "bitop64", "structured 64-bit set + both halves over 2^26 strided values: MSB LSB MSBnz LSBnz SBC ZBC RBO (amd64 and generic)", true, [&]( Case& k ) {
        auto one = [&]( uint64_t x ) {
            int m = fast_msb64( x ), l = fast_lsb64( x ), p = __builtin_popcountll( x );
            bool ok = bo::MSB( x ) == m && bo::LSB( x ) == l && bo::SBC( x ) == p && bo::ZBC( x ) == 64 - p && bo::RBO( x ) == ref_rev64( x )
                && gen::msb64( x ) == m && gen::lsb64( x ) == l && gen::sbc64( x ) == p && gen::zbc64( x ) == 64 - p && gen::rbo64( x ) == ref_rev64( x );
            if ( x ) ok = ok && bo::MSBnz( x ) == m - 1 && bo::LSBnz( x ) == l - 1 && gen::msb64nz( x ) == m - 1 && gen::lsb64nz( x ) == l - 1;
            if ( !ok ) c.violation( k.name, hex( x ), "one of the 64-bit bit operations differs from its definition" );
            ++k.evaluations; if ( m != l ) ++k.nontrivial;
        };
        for_structured64( one );
        for ( uint64_t i = 0; i < ( uint64_t( 1 ) << 26 ); ++i ) { uint64_t v = i * 0x9e3779b97f4a7c15ull; one( v & 0xffffffffull ); one( v << 32 ); one( v ); }
    } );

    run_case( c, "complement", "32-bit: all 2^32 values x bits {0,1,15,16,30,31} and 2^20 strided values x all 32 bits; 64-bit: structured set x all 64 bits", true, [&]( Case& k ) {
        std::atomic<uint64_t> ev{ 0 };
        parallel_range( c, uint64_t( 1 ) << 32, [&]( uint64_t lo, uint64_t hi, int ) {
            for ( uint64_t i = lo; i < hi; ++i ) {
                for ( int b : { 0, 1, 15, 16, 30, 31 } ) {
                    uint32_t x = uint32_t( i ), y = x;
                    bool was = bo::complement( y, b );
                    if ( was != (( x >> b ) & 1 ) || y != ( x ^ ( uint32_t( 1 ) << b )))
                        c.violation( k.name, hex( x ) + " bit " + std::to_string( b ), "complement32 wrong" );
                }
            }
            ev += ( hi - lo ) * 6;
        } );
        for ( uint32_t i = 0; i < ( 1u << 20 ); ++i ) for ( int b = 0; b < 32; ++b ) {
            uint32_t x = i * 2654435761u, y = x;
            bool was = gen::complement32( &y, unsigned( b ));
            if ( was != (( x >> b ) & 1 ) || y != ( x ^ ( uint32_t( 1 ) << b ))) c.violation( k.name, hex( x ) + " bit " + std::to_string( b ), "generic complement32 wrong" );
            ++ev;
        }
        for_structured64( [&]( uint64_t x ) {
            for ( int b = 0; b < 64; ++b ) {
                uint64_t y = x; bool was = bo::complement( y, b );
                if ( was != (( x >> b ) & 1 ) || y != ( x ^ ( uint64_t( 1 ) << b ))) c.violation( k.name, hex( x ) + " bit " + std::to_string( b ), "complement64 wrong" );
                ++ev;
            }
        } );
        k.evaluations = ev; k.nontrivial = ev;
    } );

    run_case( c, "int-algo", "all n < 2^32, plus 2^j, 2^j-1, 2^j+1 for j<=63 (ceil2/log2ceil only up to 2^63: no representable answer above)", true, [&]( Case& k ) {
        namespace b = cds::beans;
        auto one = [&]( size_t n, bool ceil_ok ) -> bool {
            size_t lf = n ? size_t( fast_msb64( n ) - 1 ) : 0;
            size_t lc = n <= 1 ? 0 : size_t( fast_msb64( n - 1 ));
            bool p2 = n && !( n & ( n - 1 ));
            bool ok = b::log2floor( n ) == lf && b::floor2( n ) == ( size_t( 1 ) << lf ) && b::is_power2( n ) == p2 && b::log2( n ) == ( p2 ? lf : 0 );
            if ( ceil_ok ) ok = ok && b::log2ceil( n ) == lc && b::ceil2( n ) == ( size_t( 1 ) << lc );
            return ok;
        };
        std::atomic<uint64_t> nt{ 0 };
        parallel_range( c, uint64_t( 1 ) << 32, [&]( uint64_t lo, uint64_t hi, int ) {
            uint64_t n = 0;
            for ( uint64_t i = lo; i < hi; ++i ) {
                if ( !one( size_t( i ), true )) c.violation( k.name, hex( i ), "log2floor/log2ceil/floor2/ceil2/is_power2/log2 differs from its definition" );
                if ( i & ( i - 1 )) ++n;
            }
            nt += n;
        } );
        k.evaluations = uint64_t( 1 ) << 32;
        for ( int j = 0; j < 64; ++j ) for ( int d = -1; d <= 1; ++d ) {
            uint64_t n = ( uint64_t( 1 ) << j ) + uint64_t( int64_t( d ));
            bool ceil_ok = n <= ( uint64_t( 1 ) << 63 );
            if ( !one( size_t( n ), ceil_ok )) c.violation( k.name, hex( n ), "integer helper differs from its definition" );
            ++k.evaluations;
        }
        k.nontrivial = nt;
        k.samples.push_back( "ceil2(17)=" + std::to_string( cds::beans::ceil2( 17 )) + " log2floor(17)=" + std::to_string( cds::beans::log2floor( 17 )));
    } );

    // ---- splitters ----
    using cds::algo::split_bitstring; using cds::algo::byte_splitter; using cds::algo::number_splitter;
    bool T = c.thorough();
    splitter_case< split_bitstring<uint8_t>, uint8_t >( c, "split_bitstring/8", range( 1, 8 ), 8, 32, false );
    splitter_case< split_bitstring<uint16_t>, uint16_t >( c, "split_bitstring/16", range( 1, 16 ), 3, 32, false );
    splitter_case< split_bitstring<uint32_t>, uint32_t >( c, "split_bitstring/32", range( 1, 32 ), T ? 4 : 3, 32, false );
    splitter_case< split_bitstring<uint64_t>, uint64_t >( c, "split_bitstring/64-uint32", range( 1, 32 ), 3, 32, false );
    splitter_case< split_bitstring<uint64_t, 8, uint64_t>, uint64_t >( c, "split_bitstring/64-uint64", range( 1, 64 ), T ? 3 : 2, 64, false );
    splitter_case< split_bitstring<uint64_t, 8, size_t>, uint64_t >( c, "split_bitstring/64-uniform", { 1, 2, 3, 4, 5, 7, 8, 9, 13, 16, 17, 31, 32, 33, 63, 64 }, 2, 64, false );

    splitter_case< byte_splitter<uint8_t>, uint8_t >( c, "byte_splitter/8", { 8 }, 1, 32, true );
    splitter_case< byte_splitter<uint16_t>, uint16_t >( c, "byte_splitter/16", { 8, 16 }, 2, 32, true );
    splitter_case< byte_splitter<uint32_t>, uint32_t >( c, "byte_splitter/32", { 8, 16, 24, 32 }, 4, 32, true );
    splitter_case< byte_splitter<uint64_t, 8, uint64_t>, uint64_t >( c, "byte_splitter/64", { 8, 16, 24, 32, 40, 48, 56, 64 }, 8, 64, true );

    splitter_case< number_splitter<unsigned short>, unsigned short >( c, "number_splitter/16", range( 1, 15 ), 3, 15, false );
    splitter_case< number_splitter<unsigned>, unsigned >( c, "number_splitter/32", range( 1, 31 ), T ? 4 : 3, 31, false );
    splitter_case< number_splitter<int>, int >( c, "number_splitter/32-signed", range( 1, 31 ), 3, 31, false );
    splitter_case< number_splitter<unsigned long long>, unsigned long long >( c, "number_splitter/64", range( 1, 63 ), T ? 3 : 2, 63, false );
    splitter_case< number_splitter<long>, long >( c, "number_splitter/64-signed", range( 1, 63 ), 2, 63, false );
    splitter_case< number_splitter<size_t>, size_t >( c, "number_splitter/64-uniform", { 1, 2, 3, 4, 5, 7, 8, 9, 13, 16, 17, 31, 32, 33, 48, 63 }, 3, 63, false );

    int rc = finish( c );
    if ( !c.replay.empty()) {
        if ( rc == 1 ) printf( "replay: signature=%s\nVIOLATION property=C25 replay=%s\n", rk.c_str(), c.replay.c_str());
        else printf( "replay: no violation\n" );
    }
    return rc;
}
