// C27: split-order key encoding keeps each bucket contiguous (DESIGN.md 9/C27) - exhaustive enumeration over
// the real split_list::regular_hash / dummy_hash and SplitListSet::bucket_no / parent_bucket (HP, RCU, nogc copies).
#include <cds/init.h>
#include <cds/gc/hp.h>
#include <cds/gc/nogc.h>
#include <cds/urcu/general_buffered.h>
#include <cds/container/michael_list_hp.h>
#include <cds/container/michael_list_rcu.h>
#include <cds/container/michael_list_nogc.h>
#include <cds/container/split_list_set.h>
#include <cds/container/split_list_set_rcu.h>
#include <cds/container/split_list_set_nogc.h>
#include <algorithm>
#include "../enum/enum_common.h"

using namespace venum;
namespace cc = cds::container;
namespace br = cds::algo::bit_reversal;

namespace {

struct hash_id { size_t operator()( int k ) const { return size_t( k ); } };
struct cmp_int { int operator()( int a, int b ) const { return a < b ? -1 : a > b ? 1 : 0; } };

template <class Rev>
struct sl_traits: public cc::split_list::traits
{
    typedef cc::michael_list_tag ordered_list;
    typedef hash_id hash;
    typedef Rev bit_reversal;
    typedef cds::atomicity::item_counter item_counter;
    struct ordered_list_traits: public cc::michael_list::traits { typedef cmp_int compare; };
};

typedef cds::urcu::gc< cds::urcu::general_buffered<> > rcu_gpb;

inline uint64_t loop_rev64( uint64_t x )
{
    uint64_t r = 0;
    for ( unsigned i = 0; i < 64; ++i ) if ( x & ( uint64_t( 1 ) << i )) r |= uint64_t( 1 ) << ( 63 - i );
    return r;
}

template <class F>
void for_structured64( F f )
{
    for ( int a = 0; a < 64; ++a ) {
        f( uint64_t( 1 ) << a ); f( ~( uint64_t( 1 ) << a ));
        for ( int b = a + 1; b < 64; ++b ) {
            uint64_t v = ( uint64_t( 1 ) << a ) | ( uint64_t( 1 ) << b );
            f( v ); f( ~v );
            for ( int c = b + 1; c < 64; ++c ) { uint64_t w = v | ( uint64_t( 1 ) << c ); f( w ); f( ~w ); }
        }
    }
    f( 0 ); f( ~uint64_t( 0 )); f( 0x5555555555555555ull ); f( 0xaaaaaaaaaaaaaaaaull ); f( 0x0123456789abcdefull ); f( 0xfedcba9876543210ull );
}

// One check of the ordering lemma for hash h at table size 2^k, with the bucket number taken from the real bucket_no().
// next_dummy: the real dummy hash of the bucket that follows b in split order (0 = b is the last one).
template <class Rev>
inline const char* lemma( size_t h, size_t b, size_t dummy_b, bool has_next, size_t next_dummy )
{
    size_t reg = cds::intrusive::split_list::regular_hash<Rev>( h );
    if ( !( reg & 1 )) return "regular key is not odd";
    if ( dummy_b & 1 ) return "dummy key is not even";
    if ( !( dummy_b < reg )) return "regular key does not sort after its bucket's dummy";
    if ( has_next && !( reg < next_dummy )) return "regular key does not sort before the dummy of the next bucket in split order";
    (void) b;
    return nullptr;
}

template <class Set, class Rev>
void family( Ctx& c, std::string const& smr, std::string const& rev )
{
    using cds::intrusive::split_list::dummy_hash;
    std::string base = "split-order/" + smr + "/" + rev;
    Set s_obj( 4, 1 );     // tiny real table; the bucket count used by bucket_no() is set directly below
    typedef typename Set::base_class Base;      // the intrusive split list that owns bucket_no()/parent_bucket()
    Base& s = (Base&) s_obj;                    // protected base: a C-style cast may reach it

    // --- k = 0..16: all 2^20 low hash bits x structured high bits; successor bucket from the sorted real dummy hashes ---
    int kmax = c.thorough() ? 20 : 16;
    run_case( c, base + "/small-tables", "table sizes 2^0..2^" + std::to_string( kmax ) + " x all 2^20 low hash bits x 12 high-bit patterns; successor = next larger real dummy_hash", true, [&]( Case& kase ) {
        static const uint64_t his[] = { 0, ~uint64_t( 0 ), 1, uint64_t( 1 ) << 43, 0x55555555555ull, 0xaaaaaaaaaaaull, 0x80000000001ull, 0x7ffffffffffull, 0x123456789abull, 0xfffff00000ull, 0x00000fffffull, 0xdeadbeef123ull };
        for ( int k = 0; k <= kmax; ++k ) {
            s.m_nBucketCountLog2.store( size_t( k ), atomics::memory_order_relaxed );
            size_t nb = size_t( 1 ) << k;
            std::vector<size_t> dummies( nb );
            for ( size_t b = 0; b < nb; ++b ) dummies[b] = dummy_hash<Rev>( b );
            std::vector<size_t> sorted = dummies;
            std::sort( sorted.begin(), sorted.end());
            for ( size_t i = 1; i < nb; ++i )
                if ( sorted[i] == sorted[i - 1] ) c.violation( kase.name, "k=" + std::to_string( k ), "two buckets share one dummy key" );
            std::atomic<uint64_t> nt{ 0 };
            parallel_range( c, uint64_t( 1 ) << 20, [&]( uint64_t lo, uint64_t hi, int ) {
                uint64_t n = 0;
                for ( uint64_t low = lo; low < hi; ++low ) {
                    for ( uint64_t hib : his ) {
                        size_t h = size_t( low | ( hib << 20 ));
                        size_t b = s.bucket_no( h );
                        if ( b != ( h & ( nb - 1 ))) { c.violation( kase.name, hex( h ) + " k=" + std::to_string( k ), "bucket_no() is " + hex( b ) + ", h mod 2^k is " + hex( h & ( nb - 1 ))); continue; }
                        size_t d = dummies[b];
                        auto it = std::upper_bound( sorted.begin(), sorted.end(), d );
                        bool has_next = it != sorted.end();
                        if ( const char* e = lemma<Rev>( h, b, d, has_next, has_next ? *it : 0 ))
                            c.violation( kase.name, hex( h ) + " k=" + std::to_string( k ), e );
                        if ( has_next ) ++n;
                    }
                }
                nt += n;
            }, 1 << 14 );
            kase.evaluations += ( uint64_t( 1 ) << 20 ) * ( sizeof his / sizeof his[0] );
            kase.nontrivial += nt;
        }
        kase.samples.push_back( "k=3 h=0x1d: bucket " + std::to_string( 0x1d & 7 ) + " dummy=" + hex( dummy_hash<Rev>( 5 )) + " regular=" + hex( cds::intrusive::split_list::regular_hash<Rev>( 0x1d )));
    } );

    // --- k = 13/17..63: structured 64-bit hashes; successor bucket by bit-reversed increment (reference), dummy from the real function ---
    run_case( c, base + "/large-tables", "table sizes 2^" + std::to_string( kmax + 1 ) + "..2^63 x all 64-bit hashes with <=3 set bits and their complements (+patterns)", true, [&]( Case& kase ) {
        for ( int k = kmax + 1; k <= 63; ++k ) {
            s.m_nBucketCountLog2.store( size_t( k ), atomics::memory_order_relaxed );
            uint64_t mask = ( uint64_t( 1 ) << k ) - 1;
            for_structured64( [&]( uint64_t h ) {
                ++kase.evaluations;
                size_t b = s.bucket_no( size_t( h ));
                if ( b != ( h & mask )) { c.violation( kase.name, hex( h ) + " k=" + std::to_string( k ), "bucket_no() is " + hex( b ) + ", h mod 2^k is " + hex( h & mask )); return; }
                // successor of b in split order among buckets < 2^k: reverse the k-bit number, add one, reverse back
                uint64_t rk = loop_rev64( b ) >> ( 64 - k );
                bool has_next = rk != mask;
                uint64_t nb = has_next ? ( loop_rev64( rk + 1 ) >> ( 64 - k )) : 0;
                if ( const char* e = lemma<Rev>( size_t( h ), b, dummy_hash<Rev>( b ), has_next, has_next ? dummy_hash<Rev>( size_t( nb )) : 0 ))
                    c.violation( kase.name, hex( h ) + " k=" + std::to_string( k ), e );
                if ( has_next ) ++kase.nontrivial;
            } );
        }
    } );

    // --- parent buckets ---
    run_case( c, base + "/parent", "all buckets < 2^20 and every bucket that is 2^j, 2^j+2^i, 2^j+{1,5,2^j-1} for j = 0..62", true, [&]( Case& kase ) {
        auto one = [&]( uint64_t b ) {
            if ( b == 0 ) return;
            ++kase.evaluations;
            size_t p = Base::parent_bucket( size_t( b ));
            uint64_t top = uint64_t( 1 ) << ( 63 - __builtin_clzll( b ));
            if ( p != ( b & ~top )) { c.violation( kase.name, hex( b ), "parent_bucket() is " + hex( p ) + ", the bucket with its top bit cleared is " + hex( b & ~top )); return; }
            if ( !( p < b )) { c.violation( kase.name, hex( b ), "parent is not smaller than the bucket" ); return; }
            if ( !( dummy_hash<Rev>( p ) < dummy_hash<Rev>( size_t( b )))) { c.violation( kase.name, hex( b ), "parent dummy does not sort before the bucket's dummy" ); return; }
            if ( p ) ++kase.nontrivial;
        };
        for ( uint64_t b = 1; b < ( uint64_t( 1 ) << 20 ); ++b ) one( b );
        for ( int j = 0; j <= 62; ++j ) {
            uint64_t t = uint64_t( 1 ) << j;
            one( t ); one( t + 1 ); one( t + 5 ); one( t + ( t - 1 ));
            for ( int i = 0; i < j; ++i ) one( t + ( uint64_t( 1 ) << i ));
        }
        kase.samples.push_back( "parent_bucket(0x1d)=" + hex( Base::parent_bucket( 0x1d )));
    } );
    s.m_nBucketCountLog2.store( 2, atomics::memory_order_relaxed );
}

} // namespace

int main( int argc, char** argv )
{
    Ctx c; c.property = "C27";
    parse_args( c, argc, argv );
    std::string rk, ri;
    if ( !c.replay.empty()) { if ( !read_replay( c, rk, ri )) { fprintf( stderr, "bad replay file\n" ); return 2; } c.filter = rk; }

    cds::Initialize();
    {
        cds::gc::HP hp( 16, 4 );
        rcu_gpb rcu;
        cds::threading::Manager::attachThread();

        family< cc::SplitListSet<cds::gc::HP, int, sl_traits<br::swar>>, br::swar >( c, "hp", "swar" );
        family< cc::SplitListSet<cds::gc::HP, int, sl_traits<br::lookup>>, br::lookup >( c, "hp", "lookup" );
        family< cc::SplitListSet<cds::gc::HP, int, sl_traits<br::muldiv>>, br::muldiv >( c, "hp", "muldiv" );
        family< cc::SplitListSet<rcu_gpb, int, sl_traits<br::lookup>>, br::lookup >( c, "rcu", "lookup" );
        family< cc::SplitListSet<cds::gc::nogc, int, sl_traits<br::lookup>>, br::lookup >( c, "nogc", "lookup" );
        if ( c.thorough()) {
            family< cc::SplitListSet<rcu_gpb, int, sl_traits<br::swar>>, br::swar >( c, "rcu", "swar" );
            family< cc::SplitListSet<cds::gc::nogc, int, sl_traits<br::muldiv>>, br::muldiv >( c, "nogc", "muldiv" );
        }
        cds::threading::Manager::detachThread();
    }
    cds::Terminate();

    int rc = finish( c );
    if ( !c.replay.empty()) {
        if ( rc == 1 ) printf( "replay: signature=%s\nVIOLATION property=C27 replay=%s\n", rk.c_str(), c.replay.c_str());
        else printf( "replay: no violation\n" );
    }
    return rc;
}
