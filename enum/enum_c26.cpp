// C26: the bit-reversed heap slot counter (DESIGN.md 9/C26) - exhaustive enumeration.
//
// The property as given says "the first n slot numbers are a permutation of 1..n for every n". The real counter
// fills the bottom heap level in bit-reversed order (Hunt et al.), so that literal statement already fails at n=5
// (slots 1,2,3,4,6): this is recorded as a known finding (known_findings.json, DESIGN.md 10/F6) and reported by case
// "prefix-literal", whose failing input is the first n at which the prefix is not contiguous. Everything that the
// literal statement implies and that does hold (distinct slots, complete levels, exact prefix at n = 2^k-1, dec()
// undoing inc() exactly) is checked by the other cases, and any failure there is a violation.
#include <cstdint>
#include <cassert>
#include <cds/algo/bitop.h>
#include <cds/details/bit_reverse_counter.h>
#include "enum_common.h"

using namespace venum;

namespace {

template <typename C>
struct State { C value, reversed; int high; };

template <typename C>
State<C> state_of( cds::bitop::bit_reverse_counter<C> const& c ) { return State<C>{ c.value(), c.reversed_value(), c.high_bit() }; }
template <typename C>
bool same( State<C> const& a, State<C> const& b ) { return a.value == b.value && a.reversed == b.reversed && a.high == b.high; }

template <typename C>
void family( Ctx& c, std::string const& tname )
{
    typedef cds::bitop::bit_reverse_counter<C> counter;
    uint64_t N = c.thorough() ? ( uint64_t( 1 ) << 24 ) : ( uint64_t( 1 ) << 20 );

    run_case( c, "prefix-literal/" + tname, "n = 1.." + std::to_string( N ) + ": the first n slots are exactly {1..n} (literal reading of the property)", true, [&]( Case& k ) {
        counter cnt;
        std::vector<bool> seen( 2 * N + 2, false );
        uint64_t maxv = 0; bool distinct = true;
        uint64_t first_fail = 0; std::string first_slots;
        std::vector<uint64_t> firsts;
        for ( uint64_t n = 1; n <= N; ++n ) {
            uint64_t v = uint64_t( cnt.inc());
            if ( n <= 8 ) firsts.push_back( v );
            if ( v < seen.size()) { if ( seen[v] ) distinct = false; seen[v] = true; }
            if ( v > maxv ) maxv = v;
            ++k.evaluations;
            bool is_perm = distinct && maxv == n;
            if ( !is_perm ) { if ( !first_fail ) { first_fail = n; for ( auto f : firsts ) first_slots += ( first_slots.empty() ? "" : "," ) + std::to_string( f ); } }
            else ++k.nontrivial;
        }
        if ( first_fail )
            c.violation( k.name, "n=" + std::to_string( first_fail ), "the first " + std::to_string( first_fail ) + " slot numbers are not a permutation of 1.." + std::to_string( first_fail ) +
                " (first slots produced: " + first_slots + ")" );
        std::string s; for ( auto f : firsts ) s += ( s.empty() ? "" : "," ) + std::to_string( f );
        k.samples.push_back( "first slots: " + s );
    } );

    run_case( c, "prefix-levels/" + tname, "n = 1.." + std::to_string( N ) + ": slots distinct, slot n lies in heap level floor(log2 n), exact prefix {1..n} at every n = 2^k-1", true, [&]( Case& k ) {
        counter cnt;
        std::vector<bool> seen( 2 * N + 2, false );
        uint64_t cnt_seen = 0, maxv = 0;
        for ( uint64_t n = 1; n <= N; ++n ) {
            uint64_t v = uint64_t( cnt.inc());
            ++k.evaluations;
            int lvl = 63 - __builtin_clzll( n );
            if ( v < ( uint64_t( 1 ) << lvl ) || v >= ( uint64_t( 2 ) << lvl )) { c.violation( k.name, "n=" + std::to_string( n ), "slot " + std::to_string( v ) + " is outside heap level " + std::to_string( lvl )); break; }
            if ( seen[v] ) { c.violation( k.name, "n=" + std::to_string( n ), "slot " + std::to_string( v ) + " produced twice" ); break; }
            seen[v] = true; ++cnt_seen; if ( v > maxv ) maxv = v;
            if ( uint64_t( cnt.value()) != n ) { c.violation( k.name, "n=" + std::to_string( n ), "value() is not the number of increments" ); break; }
            if (( n & ( n + 1 )) == 0 ) {   // n = 2^k - 1
                if ( maxv != n || cnt_seen != n ) { c.violation( k.name, "n=" + std::to_string( n ), "at a full level the slots are not exactly 1..n" ); break; }
                ++k.nontrivial;
            }
        }
    } );

    run_case( c, "inc-dec-roundtrip/" + tname, "for every n < " + std::to_string( N ) + ": inc() then dec() returns the same slot and restores (value, reversed, high_bit); then full unwinding from " + std::to_string( N ), true, [&]( Case& k ) {
        counter cnt;
        std::vector<uint64_t> stack;
        for ( uint64_t n = 0; n < N; ++n ) {
            State<C> before = state_of( cnt );
            uint64_t v = uint64_t( cnt.inc());
            State<C> mid = state_of( cnt );
            uint64_t d = uint64_t( cnt.dec());
            ++k.evaluations;
            if ( d != v ) { c.violation( k.name, "n=" + std::to_string( n ), "dec() returned " + std::to_string( d ) + " after inc() returned " + std::to_string( v )); return; }
            if ( !same( before, state_of( cnt ))) { c.violation( k.name, "n=" + std::to_string( n ), "inc();dec() does not restore the counter state" ); return; }
            uint64_t v2 = uint64_t( cnt.inc());
            if ( v2 != v || !same( mid, state_of( cnt ))) { c.violation( k.name, "n=" + std::to_string( n ), "inc() after inc();dec() gives a different slot/state" ); return; }
            stack.push_back( v );
            ++k.nontrivial;
        }
        while ( !stack.empty()) {
            uint64_t d = uint64_t( cnt.dec());
            ++k.evaluations;
            if ( d != stack.back()) { c.violation( k.name, "unwind at " + std::to_string( stack.size()), "dec() returned " + std::to_string( d ) + ", last outstanding slot is " + std::to_string( stack.back())); return; }
            stack.pop_back();
        }
        State<C> zero = state_of( counter());
        if ( !same( zero, state_of( cnt ))) c.violation( k.name, "unwind", "counter not back in its initial state" );
    } );

    int L = c.thorough() ? 30 : 26;
    run_case( c, "dyck-exhaustive/" + tname, "every inc/dec word of length <= " + std::to_string( L ) + " that never decrements an empty counter", true, [&]( Case& k ) {
        // split the tree by the first 8 letters so that it runs in parallel
        std::vector<std::vector<int>> prefixes;
        std::function<void( std::vector<int>&, int )> gen = [&]( std::vector<int>& w, int depth ) {
            if ( w.size() == 8 ) { prefixes.push_back( w ); return; }
            w.push_back( 1 ); gen( w, depth + 1 ); w.pop_back();
            if ( depth > 0 ) { w.push_back( 0 ); gen( w, depth - 1 ); w.pop_back(); }
        };
        std::vector<int> w; gen( w, 0 );
        std::atomic<uint64_t> ev{ 0 }, nt{ 0 };
        parallel_range( c, prefixes.size(), [&]( uint64_t lo, uint64_t hi, int ) {
            for ( uint64_t pi = lo; pi < hi; ++pi ) {
                uint64_t e = 0, n = 0;
                std::function<bool( counter, std::vector<std::pair<uint64_t, State<C>>>&, int, std::string& )> rec =
                    [&]( counter cnt, std::vector<std::pair<uint64_t, State<C>>>& st, int len, std::string& word ) -> bool {
                    if ( len == L ) return true;
                    {   // inc
                        counter c2 = cnt; State<C> before = state_of( c2 );
                        uint64_t v = uint64_t( c2.inc()); ++e;
                        st.push_back( { v, before } ); word.push_back( '+' );
                        bool ok = rec( c2, st, len + 1, word );
                        word.pop_back(); st.pop_back();
                        if ( !ok ) return false;
                    }
                    if ( !st.empty()) {   // dec
                        counter c2 = cnt;
                        uint64_t d = uint64_t( c2.dec()); ++e; ++n;
                        auto top = st.back();
                        if ( d != top.first || !same( top.second, state_of( c2 ))) {
                            c.violation( k.name, word + "-", "dec() returned " + std::to_string( d ) + " (outstanding slot " + std::to_string( top.first ) + ") or did not restore the state before the matching inc()" );
                            return false;
                        }
                        st.pop_back(); word.push_back( '-' );
                        bool ok = rec( c2, st, len + 1, word );
                        word.pop_back(); st.push_back( top );
                        if ( !ok ) return false;
                    }
                    return true;
                };
                counter cnt; std::vector<std::pair<uint64_t, State<C>>> st; std::string word;
                bool ok = true;
                for ( int letter : prefixes[pi] ) {
                    if ( letter ) { State<C> b = state_of( cnt ); uint64_t v = uint64_t( cnt.inc()); st.push_back( { v, b } ); word.push_back( '+' ); }
                    else { uint64_t d = uint64_t( cnt.dec()); if ( d != st.back().first || !same( st.back().second, state_of( cnt ))) { c.violation( k.name, word + "-", "dec() mismatch in prefix" ); ok = false; break; } st.pop_back(); word.push_back( '-' ); }
                }
                if ( ok ) rec( cnt, st, 8, word );
                ev += e; nt += n;
            }
        }, 1 );
        k.evaluations = ev; k.nontrivial = nt;
        k.samples.push_back( std::to_string( prefixes.size()) + " subtrees by 8-letter prefix, e.g. ++-+--++" );
    } );
}

} // namespace

int main( int argc, char** argv )
{
    Ctx c; c.property = "C26";
    parse_args( c, argc, argv );
    std::string rk, ri;
    if ( !c.replay.empty()) { if ( !read_replay( c, rk, ri )) { fprintf( stderr, "bad replay file\n" ); return 2; } c.filter = rk; }
    family<size_t>( c, "size_t" );
    family<uint32_t>( c, "uint32" );
    int rc = finish( c );
    if ( !c.replay.empty()) {
        if ( rc == 1 ) printf( "replay: signature=%s\nVIOLATION property=C26 replay=%s\n", rk.c_str(), c.replay.c_str());
        else printf( "replay: no violation\n" );
    }
    return rc;
}
