// Engine C (DESIGN.md 6): exhaustive enumeration of finite input spaces of the real functions.
// A "case" is a named family of inputs; every input is evaluated and compared with a definitional reference.
#ifndef VERIF_ENUM_COMMON_H
#define VERIF_ENUM_COMMON_H

#include <atomic>
#include <chrono>
#include <cstdint>
#include <cstdio>
#include <cstdlib>
#include <cstring>
#include <fstream>
#include <functional>
#include <mutex>
#include <sstream>
#include <string>
#include <thread>
#include <vector>
#include <sys/stat.h>

namespace venum {

struct Violation { std::string kase, input, message; };

struct Case {
    std::string name;
    bool exhaustive = true;         // the whole finite space named by 'space' is covered
    std::string space;              // human description of the enumerated space
    uint64_t evaluations = 0;
    uint64_t nontrivial = 0;        // inputs that are not a fixed point / degenerate (measured per case)
    std::vector<std::string> samples;
    double wall = 0;
};

struct Ctx {
    std::string tier = "quick", out, replay, replaydir = ".", filter;
    int jobs = 16;
    double deadline = 0;
    std::mutex mu;
    std::vector<Violation> violations;
    std::vector<Case> cases;
    std::chrono::steady_clock::time_point t0 = std::chrono::steady_clock::now();
    bool deadline_hit = false;
    const char* property = "";

    bool thorough() const { return tier == "thorough"; }
    double elapsed() const { return std::chrono::duration<double>( std::chrono::steady_clock::now() - t0 ).count(); }
    bool out_of_time() { if ( deadline > 0 && elapsed() > deadline ) { deadline_hit = true; return true; } return false; }

    void violation( std::string const& kase, std::string const& input, std::string const& msg )
    {
        std::lock_guard<std::mutex> l( mu );
        // keep the first few per case
        size_t n = 0;
        for ( auto& v : violations ) if ( v.kase == kase ) ++n;
        if ( n < 3 ) violations.push_back( Violation{ kase, input, msg } );
    }
    size_t violations_of( std::string const& kase )
    {
        std::lock_guard<std::mutex> l( mu );
        size_t n = 0;
        for ( auto& v : violations ) if ( v.kase == kase ) ++n;
        return n;
    }
};

inline void parse_args( Ctx& c, int argc, char** argv )
{
    for ( int i = 1; i < argc; ++i ) {
        std::string a = argv[i];
        auto next = [&]() -> std::string { return i + 1 < argc ? argv[++i] : ""; };
        if ( a == "--tier" ) c.tier = next();
        else if ( a == "--jobs" ) c.jobs = atoi( next().c_str());
        else if ( a == "--deadline" ) c.deadline = atof( next().c_str());
        else if ( a == "--out" ) c.out = next();
        else if ( a == "--replay" ) c.replay = next();
        else if ( a == "--replaydir" ) c.replaydir = next();
        else if ( a == "--filter" ) c.filter = next();
        else if ( a == "--property" ) next();
    }
    if ( c.jobs < 1 ) c.jobs = 1;
}

// parallel loop over [0,n): body(lo,hi,thread_index) with chunking; returns when done
inline void parallel_range( Ctx& c, uint64_t n, std::function<void( uint64_t, uint64_t, int )> body, uint64_t chunk = 1 << 20 )
{
    std::atomic<uint64_t> next{ 0 };
    std::vector<std::thread> th;
    for ( int t = 0; t < c.jobs; ++t ) {
        th.emplace_back( [&, t]() {
            for ( ;; ) {
                uint64_t lo = next.fetch_add( chunk );
                if ( lo >= n ) break;
                uint64_t hi = lo + chunk < n ? lo + chunk : n;
                body( lo, hi, t );
            }
        } );
    }
    for ( auto& x : th ) x.join();
}

inline std::string hex( uint64_t v ) { char b[32]; snprintf( b, sizeof b, "0x%llx", (unsigned long long) v ); return b; }

inline std::string jesc( std::string const& s )
{
    std::string o;
    for ( unsigned char ch : s ) {
        if ( ch == '"' || ch == '\\' ) { o += '\\'; o += char( ch ); }
        else if ( ch == '\n' ) o += "\\n";
        else if ( ch < 0x20 ) o += ' ';
        else o += char( ch );
    }
    return o;
}

// Runs one case: fn fills in evaluations / nontrivial / samples and reports violations through ctx
inline void run_case( Ctx& c, std::string const& name, std::string const& space, bool exhaustive, std::function<void( Case& )> fn )
{
    if ( !c.filter.empty() && name.find( c.filter ) == std::string::npos ) return;
    Case k; k.name = name; k.space = space; k.exhaustive = exhaustive;
    double t = c.elapsed();
    fn( k );
    k.wall = c.elapsed() - t;
    if ( c.deadline_hit ) k.exhaustive = false;
    c.cases.push_back( k );
}

inline int finish( Ctx& c )
{
    uint64_t evals = 0, nt = 0; bool exh = true;
    for ( auto& k : c.cases ) { evals += k.evaluations; nt += k.nontrivial; if ( !k.exhaustive ) exh = false; }
    mkdir( c.replaydir.c_str(), 0755 );
    std::ostringstream js;
    js << "{\n \"property\": \"" << c.property << "\",\n \"tier\": \"" << c.tier << "\",\n \"scenarios\": " << c.cases.size()
       << ",\n \"executions\": " << evals << ",\n \"steps\": " << evals << ",\n \"nodes\": " << evals
       << ",\n \"distinct_outcomes\": " << nt << ",\n \"distinct_nontrivial\": " << nt
       << ",\n \"single_outcome_scenarios\": 0,\n \"aux\": [0,0,0,0],\n \"max_bound\": 0,\n \"bound_completed\": 0,\n \"min_scenario_bound_completed\": 0"
       << ",\n \"deadline_hit\": " << ( c.deadline_hit ? "true" : "false" ) << ",\n \"exhaustive\": " << ( exh ? "true" : "false" )
       << ",\n \"jobs\": " << c.jobs << ",\n \"wall_s\": " << c.elapsed() << ",\n \"per_scenario\": [";
    for ( size_t i = 0; i < c.cases.size(); ++i ) {
        auto& k = c.cases[i];
        js << ( i ? "," : "" ) << "\n  {\"id\": \"" << jesc( k.name ) << "\", \"space\": \"" << jesc( k.space ) << "\", \"exhaustive\": " << ( k.exhaustive ? "true" : "false" )
           << ", \"executions\": " << k.evaluations << ", \"nontrivial\": " << k.nontrivial << ", \"wall_s\": " << k.wall << ", \"status\": " << ( c.violations_of( k.name ) ? 1 : 0 ) << "}";
    }
    js << "\n ],\n \"samples\": [";
    bool first = true; int cnt = 0;
    for ( auto& k : c.cases ) for ( auto& s : k.samples ) {
        if ( cnt++ >= 16 ) break;
        js << ( first ? "" : "," ) << "\n  {\"scenario\": \"" << jesc( k.name ) << "\", \"case\": \"" << jesc( s ) << "\"}"; first = false;
    }
    js << "\n ],\n \"violations\": [";
    for ( size_t i = 0; i < c.violations.size(); ++i ) {
        auto& v = c.violations[i];
        std::string path = c.replaydir + "/" + c.property + "-" + std::to_string( i ) + ".replay";
        { std::ofstream f( path ); f << "property " << c.property << "\ncase " << v.kase << "\ninput " << v.input << "\nsignature " << v.kase << "\nmessage " << v.message << "\n"; }
        js << ( i ? "," : "" ) << "\n  {\"scenario\": \"" << jesc( v.kase ) << "\", \"bound\": 0, \"signature\": \"" << jesc( v.kase ) << "\", \"message\": \""
           << jesc( v.message + " [input " + v.input + "]" ) << "\", \"schedule\": \"" << jesc( v.input ) << "\", \"replay\": \"" << jesc( path ) << "\"}";
    }
    js << "\n ],\n \"engine_errors\": []\n}\n";
    if ( !c.out.empty()) { std::ofstream o( c.out ); o << js.str(); } else fputs( js.str().c_str(), stdout );
    fprintf( stderr, "enum[%s %s]: %zu cases, %llu evaluations, exhaustive=%d, %zu violations, %.1fs\n", c.property, c.tier.c_str(), c.cases.size(),
        (unsigned long long) evals, int( exh ), c.violations.size(), c.elapsed());
    for ( auto& v : c.violations ) fprintf( stderr, "  violation: %s input=%s: %s\n", v.kase.c_str(), v.input.c_str(), v.message.c_str());
    return c.violations.empty() ? 0 : 1;
}

// --replay: the file names a case and an input; the program re-runs the whole case restricted by filter = case name
// and reports whether that case still has a violation.
inline bool read_replay( Ctx& c, std::string& kase, std::string& input )
{
    std::ifstream in( c.replay );
    if ( !in ) return false;
    std::string line;
    while ( std::getline( in, line )) {
        if ( line.compare( 0, 5, "case " ) == 0 ) kase = line.substr( 5 );
        if ( line.compare( 0, 6, "input " ) == 0 ) input = line.substr( 6 );
    }
    return !kase.empty();
}

} // namespace venum

#endif
