#!/bin/bash
# confirm a seeded change produced by a sub-agent: usage tools/confirm_seed.sh <worktree> <seed-name> <property> [ninja-target gtest-filter]...
# 1. demo passes on the clean worktree, fails with the patch   2. named unit-test targets rebuilt with the patch pass
# 3. ./check <property> quick against the patched worktree exits 1, against the clean one exits 0
set -u
WT=$1; NAME=$2; PROP=$3; shift 3
D=/verif/seeded/$NAME
mkdir -p $D; cp $WT/out/* $D/ 2>/dev/null
cd $WT; git checkout -q -- . ; git status --short | grep -v '^??' && { echo "worktree dirty"; exit 2; }
echo "== demo, clean tree"; sh out/build.sh > /tmp/demo-clean.log 2>&1; echo "exit $?"; tail -2 /tmp/demo-clean.log
git apply out/patch.diff || { echo "patch does not apply"; exit 2; }
if git diff --name-only | grep -q '^src/'; then echo "(library sources changed: rebuilding cds-s)"; ninja -C _b -j16 cds-s > /tmp/ninja-lib.log 2>&1 || tail -3 /tmp/ninja-lib.log; LIBCHANGED=1; fi
echo "== demo, patched"; sh out/build.sh > /tmp/demo-patched.log 2>&1; echo "exit $?"; tail -2 /tmp/demo-patched.log
while [ $# -ge 2 ]; do
  T=$1; F=$2; shift 2
  echo "== $T ($F), patched"; ninja -C _b -j16 $T > /tmp/ninja.log 2>&1 || { tail -5 /tmp/ninja.log; }
  ( cd _b/bin && ./$T --gtest_filter="$F" 2>&1 | tail -3 )
done
echo "== ./check $PROP quick, patched"; ( cd /verif && VERIF_REPO=$WT ./check $PROP quick 2>&1 | grep -E "VIOLATION|KNOWN|quick:" | head -8; echo "exit ${PIPESTATUS[0]}" )
git checkout -q -- .
if [ -n "${LIBCHANGED:-}" ]; then ninja -C _b -j16 cds-s > /tmp/ninja-lib.log 2>&1; fi
echo "== ./check $PROP quick, clean"; ( cd /verif && VERIF_REPO=$WT ./check $PROP quick 2>&1 | grep -E "VIOLATION|KNOWN|quick:" | head -8; echo "exit ${PIPESTATUS[0]}" )
