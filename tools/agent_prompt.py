#!/usr/bin/env python3
"""Prints the prompt given to a mutation sub-agent for one property (text of the property + build notes only)."""
import json, sys
pid = sys.argv[1]
hint = sys.argv[2] if len(sys.argv) > 2 else ""
props = {json.loads(l)['id']: json.loads(l) for l in open('/verif/properties.jsonl')}
d = props[pid]
wt = "/tmp/wt-" + pid + (sys.argv[3] if len(sys.argv) > 3 else "")
print(f"""You are helping to evaluate a verification effort for the C++11 library khizmax/libcds (lock-free containers, hazard pointers, RCU).
Work ONLY inside the git worktree {wt} (a checkout of the library at the commit under study). Do not modify /repo, and do not look at or use anything under /verif.

PROPERTY {pid}: {d['title']}
Statement: {d['statement']}
Quantified over: {d['quantifier']['text']}
Code it is anchored in: {', '.join(d['anchors']['files'])}

YOUR TASK: produce ONE realistic change to the library's own source (files under cds/ or src/ in {wt}) that BREAKS this property, such that
 (a) the library and its tests still compile;
 (b) the repository's existing tests for the affected component still PASS with the change (build and run the relevant unit-test binary and, where one exists, the relevant stress test; report exactly what you ran and the results);
 (c) the breakage needs something SPECIFIC to manifest - a particular thread interleaving, a multi-step sequence of operations, an unusual input or configuration, or two cooperating sites that each look fine alone. It must NOT be something ordinary use or the existing tests expose at once.
Think of the bug a maintainer could realistically introduce: a CAS weakened to load-then-store, a removed re-check after acquiring something, an off-by-one at a boundary, a skipped helping step, a wrong order of publish/retire, a wrong condition on a rarely taken branch. Keep the change small (a few lines). {hint}

ALSO write a DEMONSTRATION: a small stand-alone C++ program (demo.cpp, linking against the library you build in the worktree) that FAILS (prints FAIL and exits non-zero) with your change applied and PASSES (exit 0) on the unchanged worktree. For a concurrency bug you may force the interleaving deterministically (e.g. through a custom back_off / allocator / functor template parameter that blocks one thread at the right moment, or by driving internal steps from one thread), or run a bounded stress loop that fails with high probability within ~1 minute; say which. Verify both directions yourself (git stash / git checkout to compare).

DELIVER in {wt}/out/ :
  patch.diff   - `git diff` of the library change only (no test or demo files)
  demo.cpp, build.sh (how to build and run the demo from the worktree root)
  notes.md     - what the change is, why the existing tests still pass, exactly what it needs in order to manifest, the commands you ran and their results (tests with change: pass; demo with change: fail; demo without: pass)
Leave the worktree with the change REVERTED in the tracked files (only out/ and your build directory added).

BUILD NOTES: cmake + ninja, gcc 12, GTest from /root/miniconda, boost in /usr/include. Configure your own build directory, e.g.
  cmake -G Ninja -S {wt} -B {wt}/_b -DCMAKE_BUILD_TYPE=RelWithDebInfo -DLIBCDS_WITH_TESTS=ON -DCMAKE_CXX_FLAGS=-Wno-error -DCMAKE_PREFIX_PATH=/root/miniconda
then build ONLY the targets you need with at most 4 jobs (the machine is shared): `ninja -C {wt}/_b -j4 cds-s <target>`; test targets are named unit-queue, unit-stack, unit-deque, unit-pqueue, unit-misc, unit-list-*, unit-set-*, unit-map-*, unit-tree, unit-striped-set, stress-queue-push-pop, stress-stack, stress-pqueue, ... (see test/unit/*/CMakeLists.txt and test/stress/*/CMakeLists.txt); binaries land in {wt}/_b/bin and accept --gtest_filter=. Stress tests read {wt}/_b/bin/test.conf (copy/adjust iteration counts if needed; cfg via env CDSTEST_CFG). The demo can be built with: g++ -std=c++11 -O2 -I{wt} demo.cpp {wt}/_b/bin/libcds-s.a -lpthread -latomic (add -mcx16). There is no network. Be economical: do not build the whole test suite.
Your final message should summarise the change and the evidence in a few lines.""")
